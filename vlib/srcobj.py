"""Third output format of the C++ -> Lean translator: the methods of a *stateful* class whose members are scalars, byte vectors
(`std::vector<uint8_t>`) and lists of byte vectors (`std::vector<std::vector<uint8_t>>`) — the Encoder.

The object's state is a Lean record (one field per data member, generated from the class declaration); a method becomes a
function `State -> arguments -> Option (State x result)` (`none` = undefined behaviour or exhausted loop fuel).  Pointers into
member vectors carry their provenance statically (the template vector / the last frame) and an offset; calls through such a pointer
to the already translated header functions run on that vector's bytes and are written back; `while` loops become recursion on a
fuel argument.  A `const Packet&` parameter is opaque: only what the class reads from it appears (record `PktIn`: message type,
payload length, payload bytes, and the bytes `getRawCmpHeader` / `getRawMessageHeader` produce).
"""
import re

from .srctrans import FnTr, TU, Untranslatable, strip_cv

BYTES = ("std::vector<unsigned char>", "std::vector<uint8_t>")
FRAMES = ("std::vector<std::vector<unsigned char>>", "std::vector<std::vector<uint8_t>>")


def field_kind(fd):
    t = fd.get("type", {})
    q = strip_cv(t.get("desugaredQualType") or t.get("qualType") or "")
    if q in BYTES:
        return "bytes"
    if q in FRAMES:
        return "frames"
    if q.startswith("std::unordered_map<") or q.endswith("SegmentedPackets"):
        return "map"
    return "scalar"


class ClassInfo:
    def __init__(self, T, rec):
        self.T = T
        self.rec = rec
        self.qual = T.tu.qualname(rec)
        self.lean = T.ident(self.qual)
        self.fields = []      # (name, kind, ctype)
        self.map_key_types = []   # qualified names of the key types of the map members
        for c in rec.get("inner", []):
            if c.get("kind") == "FieldDecl" and c.get("name"):
                k = field_kind(c)
                if k == "map":
                    mk = re.search(r"unordered_map<\s*([^,<>]+?)\s*,", c.get("type", {}).get("desugaredQualType") or c.get("type", {}).get("qualType") or "")
                    if mk:
                        self.map_key_types.append(strip_cv(mk.group(1)))
                ct = None
                if k == "scalar":
                    try:
                        ct = T.ctype(c.get("type"))
                    except Untranslatable:
                        ct = None
                    if ct is None or ct[0] not in ("i", "b"):
                        continue            # a member of another type (e.g. unique_ptr<Payload>): not part of the state; methods that
                                            # touch it are untranslatable and, if they are argument-less const getters, become opaque inputs
                self.fields.append((c["name"], k, ct))
        self.by_name = {f[0]: f for f in self.fields}

    def struct(self):
        out = ["/-- state of `%s`: one field per data member -/" % self.qual, "structure %s_St where" % self.lean]
        for nm, k, ct in self.fields:
            ty = {"bytes": "Bytes", "frames": "List Bytes", "map": "SMap %s_St" % (self.elem.lean if getattr(self, "elem", None) else "Unit")}.get(k) or ("Bool" if ct[0] == "b" else "Nat")
            out.append("  f_%s : %s" % (nm, ty))
        out.append("deriving Repr, Inhabited\n")
        return "\n".join(out)


class ObjFn(FnTr):
    def __init__(self, OT, node):
        FnTr.__init__(self, OT.T, node)
        self.OT = OT
        self.cls = OT.cls
        self.prov = {}          # decl id of a local pointer / reference -> (region, offset lean expr or None)
        self.pkt = {}           # decl id of an opaque packet parameter -> lean name
        self.structs = {}       # decl id of a struct-of-scalars parameter -> {field: lean name}
        self.local_ty = {}      # lean name -> lean type, in declaration order (for loop signatures)
        self.has_fuel = False
        self.aux = []
        self.nloops = 0
        self.pktvars = {}       # decl id of a local std::shared_ptr<Packet> -> lean name (PktOut)
        self.pktlists = {}      # decl id of a local std::vector<std::shared_ptr<Packet>> -> lean name (List PktOut)
        self.locobj = {}        # decl id of a local object of the map's element class -> lean name (element state)
        self.ext_fns = []       # untranslatable static functions returning a packet list: function parameters
        self.opaque = []        # names of argument-less const getters of the same object that are outside the subset: extra inputs
        self.locrec = {}        # decl id of a local wire-record object -> lean name (Bytes)
        self.keyvars = {}       # decl id of a const local of the map's key type -> lean pair of its two scalar members
        self.outbuf = None      # decl id of a `void*` parameter that is only a memcpy destination: the function returns those bytes

    # ------------------------------------------------------------------ entry
    def run_obj(self):
        n = self.node
        f = self.fn
        f.qual = self.tu.qualname(n)
        f.node = n
        f.lean = self.T.lean_name(n)
        qt = n.get("type", {}).get("qualType", "")
        rts = qt.split("(")[0].strip()
        if n["kind"] == "CXXConstructorDecl":
            f.ret = ("v",)
        elif strip_cv(rts) in FRAMES or "vector<vector<unsigned char>>" in rts:
            f.ret = ("frames",)
        elif "vector<std::shared_ptr<Packet>>" in rts or "vector<std::shared_ptr<ASAM::CMP::Packet>>" in rts:
            f.ret = ("pktlist",)
        elif strip_cv(rts) in ("std::shared_ptr<Packet>", "std::shared_ptr<ASAM::CMP::Packet>"):
            f.ret = ("pktptr",)
        else:
            f.ret = self.T.ctype_s(rts)
        f.params = []
        for c in n.get("inner", []):
            if c.get("kind") == "ParmVarDecl":
                q = c.get("type", {}).get("qualType", "")
                if strip_cv(q.rstrip("&").strip()) in ("ASAM::CMP::Packet", "Packet") and q.strip().endswith("&"):
                    nm = self.vname(c.get("name"), "a_")
                    if hasattr(self, "opkts"):
                        f.params.append((nm, ("opkt",)))
                        self.local_ty[nm] = "OPkt"
                        continue
                    self.pkt[c["id"]] = nm
                    f.params.append((nm, ("pkt",)))
                    self.local_ty[nm] = "PktIn"
                    continue
                if strip_cv(q) in ("void *", "void*") and self.only_memcpy_dest(c["id"], TU.body_of(n)):
                    self.outbuf = c["id"]
                    continue
                if strip_cv(q) in ("void *", "void*"):
                    nm = self.vname(c.get("name"), "a_")
                    self.locals[c["id"]] = nm
                    self.local_ty[nm] = "Nat"
                    f.params.append((nm, ("p", "unsigned char")))
                    continue
                rq = strip_cv(q.rstrip("&").strip())
                rec = None
                if q.strip().endswith("&"):
                    for r in self.tu.records():
                        qn = self.tu.qualname(r)
                        if qn == rq or qn.endswith("::" + rq):
                            rec = r
                if rec is not None:
                    # a plain struct of scalars passed by const reference: one parameter per field
                    flds = [x for x in rec.get("inner", []) if x.get("kind") == "FieldDecl" and x.get("name")]
                    m = {}
                    for x in flds:
                        ft = self.T.ctype(x.get("type"))
                        if ft[0] not in ("i", "b"):
                            raise Untranslatable("struct parameter with a non-scalar field")
                        nm = self.vname("%s_%s" % (c.get("name"), x["name"]), "a_")
                        m[x["name"]] = nm
                        self.local_ty[nm] = "Bool" if ft[0] == "b" else "Nat"
                        f.params.append((nm, ft))
                    self.structs[c["id"]] = m
                    continue
                t = self.T.ctype(c.get("type"))
                if t[0] not in ("i", "b", "p"):
                    raise Untranslatable("parameter type %s" % (t,))
                nm = self.vname(c.get("name") or self.fresh("anon"), "a_")
                self.locals[c["id"]] = nm
                self.local_ty[nm] = "Bool" if t[0] == "b" else "Nat"      # a pointer parameter is an address in the memory `m`
                f.params.append((nm, t))
        body = TU.body_of(n)
        pre = []
        if n["kind"] == "CXXConstructorDecl":
            f.ret = ("v",)
            f.lean = f.lean + "_ctor"
            for c in n.get("inner", []):
                if c.get("kind") != "CXXCtorInitializer":
                    continue
                mname = (c.get("anyInit") or {}).get("name")
                fld = self.cls.by_name.get(mname)
                if fld is None:
                    raise Untranslatable("initialiser of a member outside the state")
                e = c["inner"][0]
                if fld[1] in ("bytes", "frames"):
                    if e.get("kind") == "CXXConstructExpr" and not e.get("inner"):
                        pre.append("let s := { s with f_%s := [] }" % mname)
                        continue
                    raise Untranslatable("vector member initialiser")
                if e.get("kind") == "CXXDefaultInitExpr":
                    fd = [x for x in self.cls.rec.get("inner", []) if x.get("kind") == "FieldDecl" and x.get("name") == mname][0]
                    init = [x for x in fd.get("inner", []) if x.get("kind") not in ("FullComment",)]
                    if not init:
                        raise Untranslatable("member without default initialiser")
                    e = init[0]
                    while e.get("kind") == "InitListExpr" and len(e.get("inner", [])) == 1:
                        e = e["inner"][0]
                B0 = []
                v = self.ex(e, B0)
                pre += B0
                pre.append("let s := { s with f_%s := %s }" % (mname, v))
        code = self.block(body.get("inner", []), self.fall_off, 1)
        code = "".join("  " + x + "\n" for x in pre) + code
        if self.outbuf is not None:
            code = "  let out_ := ([] : Bytes)\n" + code
        f.body = code
        f.has_fuel = self.has_fuel
        f.aux = self.aux
        f.opaque = list(self.opaque)
        f.ext_fns = list(self.ext_fns)
        f.outbuf = self.outbuf is not None
        return f

    def only_memcpy_dest(self, did, body):
        uses = []
        self.uses_of(body, did, [], uses)
        if not uses:
            return False
        for chain in uses:
            i = len(chain) - 1
            while i >= 0 and chain[i].get("kind") in ("ImplicitCastExpr", "ParenExpr", "CStyleCastExpr", "CXXStaticCastExpr", "CXXReinterpretCastExpr"):
                i -= 1
            if i < 0 or chain[i].get("kind") != "CallExpr":
                return False
            par = chain[i]
            if self.strip_casts(par["inner"][0]).get("referencedDecl", {}).get("name") != "memcpy" or par["inner"][1] is not chain[i + 1]:
                return False
        return True

    def void_result(self):
        return "out_" if self.outbuf is not None else "()"

    def fall_off(self, ind):
        if self.fn.ret[0] == "v":
            return "  " * ind + "pure (s, %s)" % self.void_result()
        return "  " * ind + "none"

    def ret_code(self, val, ind):
        return "  " * ind + "pure (s, %s)" % self.void_result()

    def ret_code_v(self, v, ind):
        return "  " * ind + "pure (s, %s)" % v

    # ------------------------------------------------------------------ members
    def this_field(self, n):
        """(name, kind, ctype) if n is `this->member` of the class"""
        while n.get("kind") in ("ParenExpr", "ImplicitCastExpr"):
            n = n["inner"][0]
        if n.get("kind") != "MemberExpr" or not n.get("isArrow"):
            return None
        b = n["inner"][0]
        while b.get("kind") in ("ParenExpr", "ImplicitCastExpr"):
            b = b["inner"][0]
        if b.get("kind") != "CXXThisExpr":
            return None
        return self.cls.by_name.get(n.get("name"))

    def lv(self, n, B):
        f = self.this_field(n)
        if f is not None:
            if f[1] != "scalar":
                raise Untranslatable("vector member used as a scalar lvalue")
            return ("field", f[0], f[2])
        return FnTr.lv(self, n, B)

    def load(self, l, B):
        if l[0] == "field":
            return "s.f_%s" % l[1]
        return FnTr.load(self, l, B)

    def store(self, l, v, B, vt):
        if l[0] == "field":
            B.append("let s := { s with f_%s := %s }" % (l[1], v))
            return
        if l[0] == "local":
            return FnTr.store(self, l, v, B, vt)
        raise Untranslatable("store through a plain pointer in an object method")

    # ------------------------------------------------------------------ regions (member vectors)
    def region_of(self, n):
        """static provenance of an expression denoting a byte vector: ('tmpl', field) | ('back', field) or None"""
        while n.get("kind") in ("ParenExpr", "ImplicitCastExpr", "MaterializeTemporaryExpr", "ExprWithCleanups"):
            n = n["inner"][0]
        f = self.this_field(n)
        if f is not None and f[1] == "bytes":
            return ("tmpl", f[0])
        if n.get("kind") == "CXXMemberCallExpr" and len(n["inner"]) == 1:
            me = n["inner"][0]
            if me.get("kind") == "MemberExpr" and me.get("name") == "back":
                g = self.this_field(me["inner"][0])
                if g is not None and g[1] == "frames":
                    return ("back", g[0])
        if n.get("kind") == "DeclRefExpr" and n["referencedDecl"]["id"] in self.prov:
            r, off = self.prov[n["referencedDecl"]["id"]]
            if off is None:
                return r
        return None

    def rbytes(self, r):
        return "s.f_%s" % r[1] if r[0] == "tmpl" else "(lastD s.f_%s)" % r[1]

    def rstore(self, r, v, B):
        if r[0] == "tmpl":
            B.append("let s := { s with f_%s := %s }" % (r[1], v))
        else:
            B.append("let s := { s with f_%s := setLast s.f_%s %s }" % (r[1], r[1], v))

    def rguard(self, r, B):
        if r[0] == "back":
            B.append("let _ ← nonEmpty s.f_%s" % r[1])     # back() of an empty vector is undefined

    def pptr(self, n, B):
        """pointer with provenance: (region, offset lean expr), or ('pkt', name, offset) for the packet's payload, or None"""
        while (n.get("kind") in ("ParenExpr", "ImplicitCastExpr", "CXXReinterpretCastExpr", "CStyleCastExpr", "CXXStaticCastExpr") and n.get("castKind") in (None, "BitCast", "NoOp", "LValueToRValue")) \
                or n.get("kind") in ("MaterializeTemporaryExpr", "ExprWithCleanups", "CXXBindTemporaryExpr"):
            n = n["inner"][0]
        k = n.get("kind")
        if k == "DeclRefExpr" and n["referencedDecl"]["id"] in self.prov:
            r, off = self.prov[n["referencedDecl"]["id"]]
            if off is not None:
                return (r, off)
            return None
        if k == "CXXMemberCallExpr" and len(n["inner"]) == 1:
            me = n["inner"][0]
            if me.get("kind") == "MemberExpr" and me.get("name") == "data":
                r = self.region_of(me["inner"][0])
                if r is not None:
                    self.rguard(r, B)
                    return (r, "0")
            if me.get("kind") == "MemberExpr" and me.get("name") == "getRawPayload":
                # packet.getPayload().getRawPayload()
                b = me["inner"][0]
                while b.get("kind") in ("ParenExpr", "ImplicitCastExpr"):
                    b = b["inner"][0]
                if b.get("kind") == "CXXMemberCallExpr" and b["inner"][0].get("name") == "getPayload":
                    p = self.pkt_of(b["inner"][0]["inner"][0])
                    if p:
                        return (("pkt", p), "0")
        if k == "CXXMemberCallExpr" and len(n["inner"]) == 1:
            me = n["inner"][0]
            b = me.get("inner", [{}])[0] if me.get("kind") == "MemberExpr" else {}
            while b.get("kind") in ("ParenExpr", "ImplicitCastExpr"):
                b = b["inner"][0]
            if me.get("kind") == "MemberExpr" and me.get("isArrow") and b.get("kind") == "CXXThisExpr":
                try:
                    d = self.T.definition(me["referencedMemberDecl"])
                except Untranslatable:
                    d = None
                body = TU.body_of(d).get("inner", []) if d is not None else []
                if len(body) == 1 and body[0].get("kind") == "ReturnStmt" and body[0].get("inner"):
                    r = self.pptr(body[0]["inner"][0], B)
                    if r is not None:
                        return r
        if k == "UnaryOperator" and n.get("opcode") == "&":
            x = n["inner"][0]
            while x.get("kind") in ("ParenExpr",):
                x = x["inner"][0]
            if x.get("kind") == "CXXOperatorCallExpr" and self.strip_casts(x["inner"][0]).get("referencedDecl", {}).get("name") == "operator[]":
                r = self.region_of(x["inner"][1])
                if r is not None:
                    self.rguard(r, B)
                    idx = self.ex(x["inner"][2], B)
                    return (r, idx)
        if k == "BinaryOperator" and n.get("opcode") == "+":
            a, b = n["inner"]
            pa = self.pptr(a, B)
            if pa is not None:
                i = self.ex(b, B)
                return (pa[0], "(%s + %s)" % (pa[1], i))
        return None

    def pkt_of(self, n):
        while n.get("kind") in ("ParenExpr", "ImplicitCastExpr"):
            n = n["inner"][0]
        if n.get("kind") == "DeclRefExpr" and n["referencedDecl"]["id"] in self.pkt:
            return self.pkt[n["referencedDecl"]["id"]]
        return None

    # ------------------------------------------------------------------ expressions
    def ex(self, n, B):
        k = n.get("kind")
        if k == "ImplicitCastExpr" and n.get("castKind") == "LValueToRValue":
            sub = n["inner"][0]
            while sub.get("kind") == "ParenExpr":
                sub = sub["inner"][0]
            if sub.get("kind") == "CallExpr":
                return self.ex(sub, B)            # std::min / std::max return a reference to one of their arguments
            if sub.get("kind") == "UnaryOperator" and sub.get("opcode") in ("++", "--") and not sub.get("isPostfix"):
                return self.ex(sub, B)            # pre-increment yields the updated lvalue
            if sub.get("kind") == "MemberExpr" and not sub.get("isArrow"):
                b = sub["inner"][0]
                while b.get("kind") in ("ParenExpr", "ImplicitCastExpr"):
                    b = b["inner"][0]
                if b.get("kind") == "DeclRefExpr" and b["referencedDecl"]["id"] in self.structs:
                    m = self.structs[b["referencedDecl"]["id"]]
                    if sub.get("name") in m:
                        return m[sub["name"]]
        if k == "BinaryOperator" and n.get("opcode") in ("==", "!=") and any(self.strip_casts(x).get("kind") == "CXXNullPtrLiteralExpr" or x.get("castKind") == "NullToPointer" for x in n["inner"]):
            other = [x for x in n["inner"] if not (self.strip_casts(x).get("kind") == "CXXNullPtrLiteralExpr" or x.get("castKind") == "NullToPointer")][0]
            return "(%s %s 0)" % (self.ex(other, B), n["opcode"])
        if k == "CXXMemberCallExpr":
            me0 = n["inner"][0]
            while me0.get("kind") in ("ParenExpr", "ImplicitCastExpr"):
                me0 = me0["inner"][0]
            if me0.get("kind") == "MemberExpr":
                pv = self.pkt_var_of_arrow(me0["inner"][0])
                if pv is not None and me0.get("name") == "getPayloadLength" and len(n["inner"]) == 1:
                    return "(pktPayloadLength %s)" % pv
                if self.map_elem(me0["inner"][0]) is not None or (self.strip_casts(me0["inner"][0]).get("kind") == "DeclRefExpr" and self.strip_casts(me0["inner"][0])["referencedDecl"]["id"] in self.locobj):
                    r = self.elem_call(n, B)
                    if r is not None:
                        return r
        if k == "MemberExpr":
            f = self.this_field(n)
            if f is not None and f[1] == "scalar":
                return "s.f_%s" % f[0]        # bound to a const reference (std::min / std::max): its value
        if k == "DeclRefExpr" and n["referencedDecl"]["id"] in self.locals and self.ty_is_scalar(n):
            return self.locals[n["referencedDecl"]["id"]]
        if k == "CXXMemberCallExpr":
            me = n["inner"][0]
            while me.get("kind") in ("ParenExpr", "ImplicitCastExpr"):
                me = me["inner"][0]
            if me.get("kind") == "MemberExpr":
                nm = me.get("name")
                obj = me["inner"][0]
                p = self.pkt_of(obj)
                if p is not None and len(n["inner"]) == 1:
                    if nm == "getMessageType":
                        return "%s.messageType" % p
                    if nm == "getPayloadLength":
                        return "%s.payloadLength" % p
                    raise Untranslatable("packet method " + str(nm))
                f = self.this_field(obj)
                if f is not None and f[1] in ("bytes", "frames") and len(n["inner"]) == 1:
                    if nm == "empty":
                        return "(s.f_%s).isEmpty" % f[0]
                    if nm == "size":
                        return "(s.f_%s).length" % f[0]
                r = self.region_of(obj)
                if r is not None and nm == "size" and len(n["inner"]) == 1:
                    self.rguard(r, B)
                    return "(%s).length" % self.rbytes(r)
        if k == "CallExpr":
            c = self.strip_casts(n["inner"][0])
            nm = c.get("referencedDecl", {}).get("name")
            if nm in ("min", "max") and len(n["inner"]) == 3:
                a, b = self.ex(n["inner"][1], B), self.ex(n["inner"][2], B)
                return "(Nat.%s %s %s)" % (nm, a, b)
        if k == "UnaryOperator" and n.get("opcode") in ("++", "--") and not n.get("isPostfix"):
            # pre-increment used as a value
            self.effect(n, B)
            sub = n["inner"][0]
            return self.load(self.lv(sub, B), B)
        return FnTr.ex(self, n, B)

    # ------------------------------------------------------------------ packets produced by the decoder
    def is_make_shared_packet(self, n):
        while n.get("kind") in ("MaterializeTemporaryExpr", "CXXBindTemporaryExpr", "ExprWithCleanups", "ImplicitCastExpr", "CXXConstructExpr") and n.get("inner") and len(n["inner"]) == 1:
            n = n["inner"][0]
        if n.get("kind") == "CallExpr" and self.strip_casts(n["inner"][0]).get("referencedDecl", {}).get("name") == "make_shared" and len(n["inner"]) == 4:
            return n
        return None

    def packet_value(self, n, B):
        """Lean term of type PktOut for an expression of type std::shared_ptr<Packet>, or None"""
        ms = self.is_make_shared_packet(n)
        if ms is not None:
            mt = self.ex(ms["inner"][1], B)
            pp = self.pptr(ms["inner"][2], B)
            if pp is not None and pp[0][0] in ("tmpl", "back"):
                src = "(%s.drop %s)" % (self.rbytes(pp[0]), pp[1])
            else:
                self.fn.uses_mem = True
                src = "(m.drop %s)" % self.ex(ms["inner"][2], B)
            self.ex(ms["inner"][3], B)      # the size argument is evaluated (and ignored by the constructor)
            t = self.fresh()
            B.append("let %s ← mkPacket %s %s" % (t, mt, src))
            return t
        x = n
        while x.get("kind") in ("MaterializeTemporaryExpr", "CXXBindTemporaryExpr", "ExprWithCleanups", "ImplicitCastExpr", "CXXConstructExpr") and x.get("inner") and len(x["inner"]) == 1:
            x = x["inner"][0]
        if x.get("kind") == "DeclRefExpr" and x["referencedDecl"]["id"] in self.pktvars:
            return self.pktvars[x["referencedDecl"]["id"]]
        if x.get("kind") == "CXXMemberCallExpr":
            r = self.elem_call(x, B)
            if r is not None:
                return r
        return None

    def pkt_var_of_arrow(self, obj):
        """`packet->…`: CXXOperatorCallExpr operator-> on a local shared_ptr<Packet>"""
        while obj.get("kind") in ("ParenExpr", "ImplicitCastExpr"):
            obj = obj["inner"][0]
        if obj.get("kind") == "CXXOperatorCallExpr" and self.strip_casts(obj["inner"][0]).get("referencedDecl", {}).get("name") == "operator->":
            x = obj["inner"][1]
            while x.get("kind") in ("ParenExpr", "ImplicitCastExpr"):
                x = x["inner"][0]
            if x.get("kind") == "DeclRefExpr" and x["referencedDecl"]["id"] in self.pktvars:
                return self.pktvars[x["referencedDecl"]["id"]]
        return None

    # ------------------------------------------------------------------ map member
    def map_key(self, n, B):
        while n.get("kind") in ("MaterializeTemporaryExpr", "ImplicitCastExpr", "CXXBindTemporaryExpr", "CXXConstructExpr") and n.get("inner") and len(n["inner"]) == 1:
            n = n["inner"][0]
        if n.get("kind") == "InitListExpr" and len(n.get("inner", [])) == 2:
            return "(%s, %s)" % (self.ex(n["inner"][0], B), self.ex(n["inner"][1], B))
        if n.get("kind") == "DeclRefExpr" and n.get("referencedDecl", {}).get("id") in self.keyvars:
            return self.keyvars[n["referencedDecl"]["id"]]      # a const local of the key type (never assigned: a non-const one is rejected where it is declared)
        raise Untranslatable("map key")

    def is_key_type(self, ty):
        """the declared type is the `const`-qualified key struct of a map member of this class (two scalar members, aggregate)"""
        q = (ty or {}).get("qualType", "")
        if not q.startswith("const "):
            return False
        base = q[len("const "):].strip()
        return any(base == k or k.endswith("::" + base) or base.endswith("::" + k) for k in getattr(self.OT.cls if hasattr(self.OT, "cls") else self.OT, "map_key_types", ()))

    def map_elem(self, n):
        """(field name, key node) if n is `this->map[key]`"""
        while n.get("kind") in ("ParenExpr", "ImplicitCastExpr", "MaterializeTemporaryExpr"):
            n = n["inner"][0]
        if n.get("kind") == "CXXOperatorCallExpr" and self.strip_casts(n["inner"][0]).get("referencedDecl", {}).get("name") == "operator[]":
            f = self.this_field(n["inner"][1])
            if f is not None and f[1] == "map":
                return f[0], n["inner"][2]
        return None

    def elem_call(self, n, B):
        """`this->map[key].method(args)`: index (default-inserting), run the element class's translated method, store the element back"""
        me = n["inner"][0]
        while me.get("kind") in ("ParenExpr", "ImplicitCastExpr"):
            me = me["inner"][0]
        if me.get("kind") != "MemberExpr":
            return None
        el = self.map_elem(me["inner"][0])
        tgt = None
        if el is None:
            b = me["inner"][0]
            while b.get("kind") in ("ParenExpr", "ImplicitCastExpr"):
                b = b["inner"][0]
            if b.get("kind") == "DeclRefExpr" and b["referencedDecl"]["id"] in self.locobj:
                tgt = self.locobj[b["referencedDecl"]["id"]]
            else:
                return None
        EO = self.OT.elem
        d = self.T.definition(me["referencedMemberDecl"])
        g = EO.translate(d)
        argv = [self.ex(a, B) for a in n["inner"][1:]]
        if g.uses_mem:
            self.fn.uses_mem = True
            argv = ["m"] + argv
        r = self.fresh()
        if el is not None:
            fname, keyn = el
            key = self.map_key(keyn, B)
            e = self.fresh("el")
            B.append("let (mp_, %s) := mapIndex s.f_%s %s %s_default" % (e, fname, key, EO.cls.lean))
            B.append("let s := { s with f_%s := mp_ }" % fname)
            B.append("let (%s, %s) ← %s_obj %s %s" % (e, r, g.lean, e, " ".join(argv)))
            B.append("let s := { s with f_%s := mapPut s.f_%s %s %s }" % (fname, fname, key, e))
        else:
            B.append("let (%s, %s) ← %s_obj %s %s" % (tgt, r, g.lean, tgt, " ".join(argv)))
        return r

    def ty_is_scalar(self, n):
        try:
            return self.ty(n)[0] in ("i", "b")
        except Untranslatable:
            return False

    # ------------------------------------------------------------------ calls
    def call(self, n, B, want_value):
        inner = n["inner"]
        if n["kind"] == "CXXMemberCallExpr":
            me = inner[0]
            while me.get("kind") in ("ParenExpr", "ImplicitCastExpr"):
                me = me["inner"][0]
            if me.get("kind") == "MemberExpr":
                pv = self.pkt_var_of_arrow(me["inner"][0])
                if pv is not None and me.get("name") in ("setVersion", "setDeviceId", "setStreamId") and len(inner) == 2:
                    fld = {"setVersion": "version", "setDeviceId": "deviceId", "setStreamId": "streamId"}[me["name"]]
                    B.append("let %s := { %s with %s := %s }" % (pv, pv, fld, self.ex(inner[1], B)))
                    return None
                b0 = me["inner"][0]
                while b0.get("kind") in ("ParenExpr", "ImplicitCastExpr"):
                    b0 = b0["inner"][0]
                if b0.get("kind") == "DeclRefExpr" and b0["referencedDecl"]["id"] in self.pktlists and me.get("name") == "push_back" and len(inner) == 2:
                    pvv = self.packet_value(inner[1], B)
                    if pvv is None:
                        raise Untranslatable("push_back argument")
                    lst = self.pktlists[b0["referencedDecl"]["id"]]
                    B.append("let %s := %s ++ [Sum.inl %s]" % (lst, lst, pvv))
                    return None
                f0 = self.this_field(me["inner"][0])
                if f0 is not None and f0[1] == "map" and me.get("name") == "erase" and len(inner) == 2:
                    B.append("let s := { s with f_%s := mapErase s.f_%s %s }" % (f0[0], f0[0], self.map_key(inner[1], B)))
                    return None
                if self.map_elem(me["inner"][0]) is not None or (b0.get("kind") == "DeclRefExpr" and b0["referencedDecl"]["id"] in self.locobj):
                    r = self.elem_call(n, B)
                    if r is not None:
                        return r
                obj = me["inner"][0]
                base = obj
                while base.get("kind") in ("ParenExpr", "ImplicitCastExpr"):
                    base = base["inner"][0]
                nm = me.get("name")
                # --- method of the same object
                if base.get("kind") == "CXXThisExpr" and me.get("isArrow"):
                    d = self.T.definition(me["referencedMemberDecl"])
                    try:
                        g = self.OT.translate(d)
                    except Untranslatable:
                        qt = d.get("type", {}).get("qualType", "")
                        nparams = len([c for c in d.get("inner", []) if c.get("kind") == "ParmVarDecl"])
                        try:
                            rt = self.T.ctype_s(qt.split("(")[0].strip())
                        except Untranslatable:
                            rt = None
                        if nparams == 0 and qt.rstrip().endswith("const") and rt is not None and rt[0] in ("i", "b"):
                            nm2 = "g_" + re.sub(r"[^A-Za-z0-9_]", "_", d.get("name", "x"))
                            if nm2 not in self.opaque:
                                self.opaque.append(nm2)
                                self.local_ty[nm2] = "Bool" if rt[0] == "b" else "Nat"
                            return nm2
                        raise
                    for o in g.opaque:
                        if o not in self.opaque:
                            self.opaque.append(o)
                            self.local_ty[o] = "Nat"
                    argv = []
                    for a in inner[1:]:
                        p = self.pkt_of(a)
                        a2 = a
                        while a2.get("kind") in ("ParenExpr", "ImplicitCastExpr"):
                            a2 = a2["inner"][0]
                        if p is not None:
                            argv.append(p)
                        elif a2.get("kind") == "DeclRefExpr" and a2["referencedDecl"]["id"] in self.structs:
                            argv += list(self.structs[a2["referencedDecl"]["id"]].values())
                        else:
                            argv.append(self.ex(a, B))
                    if len(argv) != len(g.params):
                        raise Untranslatable("argument count")
                    if g.has_fuel:
                        self.has_fuel = True
                    if g.uses_mem:
                        self.fn.uses_mem = True
                        argv = ["m"] + argv
                    callc = "%s %ss %s %s" % (g.lean + "_obj", "fuel " if g.has_fuel else "", " ".join(argv), " ".join(g.opaque))
                    if g.ret[0] == "v":
                        B.append("let (s, _) ← %s" % callc)
                        return None
                    r = self.fresh()
                    B.append("let (s, %s) ← %s" % (r, callc))
                    return r
                # --- method of a local wire-record object
                if base.get("kind") == "DeclRefExpr" and base["referencedDecl"]["id"] in self.locrec and not me.get("isArrow"):
                    lname, _q = self.locrec[base["referencedDecl"]["id"]]
                    d = self.T.definition(me["referencedMemberDecl"])
                    g = self.T.translate_fn(d)
                    if not g.has_this or g.uses_pd or g.outs:
                        raise Untranslatable("callee shape")
                    argv = [self.ex(a, B) for a in inner[1:]]
                    if g.writes:
                        if g.ret[0] != "v":
                            raise Untranslatable("writing callee with a result")
                        B.append("let %s ← %s %s 0 %s" % (lname, g.lean, lname, " ".join(argv)))
                        return None
                    t = self.fresh()
                    B.append("let %s ← %s %s 0 %s" % (t, g.lean, lname if g.uses_mem else "", " ".join(argv)))
                    return t
                # --- packet writes its raw headers through a provenance pointer
                p = self.pkt_of(obj)
                if p is not None and nm in ("getRawCmpHeader", "getRawMessageHeader") and len(inner) == 2:
                    dst = self.pptr(inner[1], B)
                    if dst is None:
                        raise Untranslatable("destination of " + nm)
                    src, cnt = ("%s.rawCmpHeader" % p, 8) if nm == "getRawCmpHeader" else ("%s.rawMsgHeader" % p, 16)
                    t = self.fresh()
                    B.append("let %s ← wrBytes %s %s %s %d" % (t, self.rbytes(dst[0]), dst[1], src, cnt))
                    self.rstore(dst[0], t, B)
                    return None
                # --- vector member operations
                f = self.this_field(obj)
                if f is not None and f[1] == "bytes":
                    if nm == "clear" and len(inner) == 1:
                        B.append("let s := { s with f_%s := [] }" % f[0])
                        return None
                    if nm == "resize" and len(inner) in (2, 3):
                        if len(inner) == 3 and self.const_int(inner[2]) != 0:
                            raise Untranslatable("resize with a non-zero fill")
                        B.append("let s := { s with f_%s := resize s.f_%s %s }" % (f[0], f[0], self.ex(inner[1], B)))
                        return None
                if f is not None and f[1] == "frames":
                    if nm == "clear" and len(inner) == 1:
                        B.append("let s := { s with f_%s := [] }" % f[0])
                        return None
                    if nm == "pop_back" and len(inner) == 1:
                        B.append("let _ ← nonEmpty s.f_%s" % f[0])
                        B.append("let s := { s with f_%s := (s.f_%s).dropLast }" % (f[0], f[0]))
                        return None
                    if nm == "push_back" and len(inner) == 2:
                        g = self.this_field(inner[1])
                        if g is None or g[1] != "bytes":
                            raise Untranslatable("push_back argument")
                        B.append("let s := { s with f_%s := s.f_%s ++ [s.f_%s] }" % (f[0], f[0], g[0]))
                        return None
                # --- resize of the last frame
                r = self.region_of(obj)
                if r is not None and nm == "resize" and len(inner) in (2, 3):
                    if len(inner) == 3 and self.const_int(inner[2]) != 0:
                        raise Untranslatable("resize with a non-zero fill")
                    self.rguard(r, B)
                    nsz = self.ex(inner[1], B)
                    self.rstore(r, "(resize %s %s)" % (self.rbytes(r), nsz), B)
                    return None
                # --- call of a translated (byte-level) function through a provenance pointer
                pp = self.pptr(obj, B) if me.get("isArrow") else None
                if pp is not None and pp[0][0] in ("tmpl", "back"):
                    d = self.T.definition(me["referencedMemberDecl"])
                    g = self.T.translate_fn(d)
                    if not g.has_this or g.uses_pd or g.outs:
                        raise Untranslatable("callee shape")
                    argv = [self.ex(a, B) for a in inner[1:]]
                    if g.writes:
                        if g.ret[0] != "v":
                            raise Untranslatable("writing callee with a result")
                        t = self.fresh()
                        B.append("let %s ← %s %s %s %s" % (t, g.lean, self.rbytes(pp[0]), pp[1], " ".join(argv)))
                        self.rstore(pp[0], t, B)
                        return None
                    t = self.fresh()
                    B.append("let %s ← %s %s %s %s" % (t, g.lean, self.rbytes(pp[0]) if g.uses_mem else "", pp[1], " ".join(argv)))
                    return t
        elif n["kind"] == "CallExpr":
            c = self.strip_casts(inner[0])
            nm = c.get("referencedDecl", {}).get("name")
            if nm == "memcpy" and len(inner) == 4 and self.outbuf is not None:
                d0 = inner[1]
                while d0.get("kind") in ("ImplicitCastExpr", "ParenExpr", "CStyleCastExpr", "CXXStaticCastExpr", "CXXReinterpretCastExpr"):
                    d0 = d0["inner"][0]
                s0 = inner[2]
                while s0.get("kind") in ("ImplicitCastExpr", "ParenExpr", "CStyleCastExpr", "CXXStaticCastExpr", "CXXReinterpretCastExpr"):
                    s0 = s0["inner"][0]
                if d0.get("kind") == "DeclRefExpr" and d0["referencedDecl"]["id"] == self.outbuf and s0.get("kind") == "UnaryOperator" and s0.get("opcode") == "&":
                    t0 = s0["inner"][0]
                    if t0.get("kind") == "DeclRefExpr" and t0["referencedDecl"]["id"] in self.locrec:
                        lname, _q = self.locrec[t0["referencedDecl"]["id"]]
                        cnt = self.ex(inner[3], B)
                        B.append("let out_ ← takeExact %s %s" % (lname, cnt))
                        return None
                raise Untranslatable("memcpy to the output buffer outside the supported shape")
            if nm == "memcpy" and len(inner) == 4:
                dst = self.pptr(inner[1], B)
                src = self.pptr(inner[2], B)
                if dst is None or dst[0][0] not in ("tmpl", "back"):
                    raise Untranslatable("memcpy outside the supported shapes")
                if src is not None and src[0][0] == "pkt":
                    srcb = "(%s.rawPayload.drop %s)" % (src[0][1], src[1])
                elif src is None:
                    # a plain pointer: an address in the memory `m` (the caller's input buffer)
                    self.fn.uses_mem = True
                    srcb = "(m.drop %s)" % self.ex(inner[2], B)
                else:
                    raise Untranslatable("memcpy between member vectors")
                cnt = self.ex(inner[3], B)
                t = self.fresh()
                B.append("let %s ← wrBytes %s %s %s %s" % (t, self.rbytes(dst[0]), dst[1], srcb, cnt))
                self.rstore(dst[0], t, B)
                return None
        # a pure translated function (no memory, no this-state): e.g. buildSegmentationFlag is a method: handled above; others:
        return FnTr.call(self, n, B, want_value)

    # ------------------------------------------------------------------ statements
    def effect(self, s, B):
        k = s.get("kind")
        if k in ("ExprWithCleanups", "ParenExpr"):
            return self.effect(s["inner"][0], B)
        if k == "CXXOperatorCallExpr" and self.strip_casts(s["inner"][0]).get("referencedDecl", {}).get("name") == "operator=" and len(s["inner"]) == 3:
            lhs, rhs = s["inner"][1], s["inner"][2]
            l0 = lhs
            while l0.get("kind") in ("ParenExpr", "ImplicitCastExpr"):
                l0 = l0["inner"][0]
            if l0.get("kind") == "DeclRefExpr" and l0["referencedDecl"]["id"] in self.pktvars:
                pv = self.packet_value(rhs, B)
                if pv is None:
                    raise Untranslatable("assignment to a packet pointer")
                B.append("let %s := %s" % (self.pktvars[l0["referencedDecl"]["id"]], pv))
                return
            el = self.map_elem(lhs)
            if el is not None:
                # this->map[key] = std::move(localObject)
                r0 = rhs
                while r0.get("kind") in ("ParenExpr", "ImplicitCastExpr", "MaterializeTemporaryExpr", "CXXBindTemporaryExpr", "ExprWithCleanups"):
                    r0 = r0["inner"][0]
                if r0.get("kind") == "CallExpr" and self.strip_casts(r0["inner"][0]).get("referencedDecl", {}).get("name") == "move":
                    r0 = r0["inner"][1]
                    while r0.get("kind") in ("ParenExpr", "ImplicitCastExpr"):
                        r0 = r0["inner"][0]
                if r0.get("kind") == "DeclRefExpr" and r0["referencedDecl"]["id"] in self.locobj:
                    key = self.map_key(el[1], B)
                    B.append("let (mp_, _) := mapIndex s.f_%s %s %s_default" % (el[0], key, self.OT.elem.cls.lean))
                    B.append("let s := { s with f_%s := mapPut mp_ %s %s }" % (el[0], key, self.locobj[r0["referencedDecl"]["id"]]))
                    return
                raise Untranslatable("assignment to a map element")
        if k in ("CXXMemberCallExpr", "CallExpr"):
            self.call(s, B, want_value=False)
            return
        return FnTr.effect(self, s, B)

    def stmt(self, s, k, ind):
        kind = s.get("kind")
        pad = "  " * ind
        if kind == "DeclStmt":
            B = []
            for d in s.get("inner", []):
                if d.get("kind") != "VarDecl":
                    raise Untranslatable("declaration")
                init = [c for c in d.get("inner", []) if c.get("kind") not in ("FullComment",)]
                if not init:
                    raise Untranslatable("uninitialised local")
                e = init[0]
                qd0 = strip_cv((d.get("type", {}).get("qualType") or ""))
                if qd0 in ("std::shared_ptr<Packet>", "std::shared_ptr<ASAM::CMP::Packet>") or (qd0 == "auto" and self.is_make_shared_packet(e) is not None) or \
                        strip_cv((d.get("type", {}).get("desugaredQualType") or "")) in ("std::shared_ptr<ASAM::CMP::Packet>",):
                    nm = self.vname(d["name"])
                    self.pktvars[d["id"]] = nm
                    self.local_ty[nm] = "PktOut"
                    pv = self.packet_value(e, B) if (e.get("inner") or e.get("kind") != "CXXConstructExpr") else None
                    B.append("let %s := %s" % (nm, pv if pv is not None else "(default : PktOut)"))    # a null pointer is never dereferenced on a translated path... see DESIGN
                    continue
                if "vector<std::shared_ptr<Packet>>" in qd0 or "vector<std::shared_ptr<ASAM::CMP::Packet>>" in qd0:
                    if e.get("kind") == "CXXConstructExpr" and not e.get("inner"):
                        nm = self.vname(d["name"])
                        self.pktlists[d["id"]] = nm
                        self.local_ty[nm] = "List (PktOut ⊕ F)"
                        B.append("let %s := ([] : List (PktOut ⊕ F))" % nm)
                        continue
                    raise Untranslatable("packet list initialiser")
                EO = getattr(self.OT, "elem", None)
                if EO is not None and e.get("kind") == "CXXConstructExpr" and (qd0 == EO.cls.qual or EO.cls.qual.endswith("::" + qd0) or qd0.endswith(EO.cls.qual.split("::")[-1])):
                    ctor = e.get("ctorType", {})
                    # constructor with arguments: find it by its argument count among the element class's translated constructors
                    args = e.get("inner", [])
                    cands = [g for g in EO.order if g.lean.endswith("_ctor") and len(g.params) == len(args)]
                    if not cands:
                        EO.run_ctors()
                        cands = [g for g in EO.order if g.lean.endswith("_ctor") and len(g.params) == len(args)]
                    if len(cands) != 1:
                        raise Untranslatable("constructor of the element class")
                    g = cands[0]
                    argv = [self.ex(a, B) for a in args]
                    if g.uses_mem:
                        self.fn.uses_mem = True
                        argv = ["m"] + argv
                    nm = self.vname(d["name"])
                    self.locobj[d["id"]] = nm
                    self.local_ty[nm] = "%s_St" % EO.cls.lean
                    B.append("let (%s, _) ← %s_obj %s_default %s" % (nm, g.lean, EO.cls.lean, " ".join(argv)))
                    continue
                # local object of a wire record type, default-initialised
                qd = strip_cv((d.get("type", {}).get("desugaredQualType") or d.get("type", {}).get("qualType") or ""))
                if e.get("kind") == "CXXConstructExpr" and not e.get("inner"):
                    dq = [k for k in self.T.layout.default if k == qd or k.endswith("::" + qd)]
                    if len(dq) == 1:
                        nm = self.vname(d["name"])
                        self.locrec[d["id"]] = (nm, dq[0])
                        self.local_ty[nm] = "Bytes"
                        B.append("let %s := ([%s] : Bytes)" % (nm, ", ".join(str(x) for x in self.T.layout.default[dq[0]])))
                        continue
                # reference to the last frame
                r = self.region_of(e)
                q = d.get("type", {}).get("qualType", "")
                if r is not None and (q.strip().endswith("&") or "alloc_traits" in q):
                    self.rguard(r, B)
                    self.prov[d["id"]] = (r, None)
                    continue
                # moved-out list of frames
                x = e
                while x.get("kind") in ("CXXConstructExpr", "ImplicitCastExpr", "MaterializeTemporaryExpr", "ExprWithCleanups", "CXXBindTemporaryExpr") and x.get("inner"):
                    x = x["inner"][0]
                if x.get("kind") == "CallExpr" and self.strip_casts(x["inner"][0]).get("referencedDecl", {}).get("name") == "move":
                    f = self.this_field(x["inner"][1])
                    if f is not None and f[1] == "frames":
                        nm = self.vname(d["name"])
                        self.locals[d["id"]] = nm
                        self.local_ty[nm] = "List Bytes"
                        B.append("let %s := s.f_%s" % (nm, f[0]))
                        B.append("let s := { s with f_%s := [] }" % f[0])      # the moved-from vector is left empty
                        continue
                # pointer with provenance
                pp = self.pptr(e, B)
                if pp is not None:
                    off = self.vname(d["name"]) + "_off"
                    B.append("let %s := %s" % (off, pp[1]))
                    self.prov[d["id"]] = (pp[0], off)
                    self.local_ty[off] = "Nat"
                    continue
                # a local of the map's key type built from two scalars (`const Endpoint key{deviceId, streamId};`): a pair of scalar locals
                kx = e
                while kx is not None and kx.get("kind") in ("MaterializeTemporaryExpr", "ImplicitCastExpr", "CXXBindTemporaryExpr", "CXXConstructExpr", "ExprWithCleanups", "CXXFunctionalCastExpr") and kx.get("inner") and len(kx["inner"]) == 1:
                    kx = kx["inner"][0]
                if kx is not None and kx.get("kind") == "InitListExpr" and len(kx.get("inner", [])) == 2 and self.is_key_type(d.get("type")):
                    nm = self.vname(d["name"])
                    a, b = self.ex(kx["inner"][0], B), self.ex(kx["inner"][1], B)
                    B.append("let %s_k0 := %s" % (nm, a))
                    B.append("let %s_k1 := %s" % (nm, b))
                    self.local_ty[nm + "_k0"] = "Nat"
                    self.local_ty[nm + "_k1"] = "Nat"
                    self.keyvars[d["id"]] = "(%s_k0, %s_k1)" % (nm, nm)
                    continue
                t = self.T.ctype(d.get("type"))
                if t[0] not in ("i", "b", "p"):
                    raise Untranslatable("local of type %s" % (t,))
                nm = self.vname(d["name"])
                v = self.ex(e, B)          # a pointer without provenance is an address in the memory `m`
                self.locals[d["id"]] = nm
                self.local_ty[nm] = "Bool" if t[0] == "b" else "Nat"
                B.append("let %s := %s" % (nm, v))
            return self.with_binds(B, k(ind), ind)
        if kind == "WhileStmt":
            return self.while_stmt(s, k, ind)
        if kind == "IfStmt" and not self.contains(s, ("ReturnStmt", "WhileStmt", "BreakStmt")) and not s.get("hasInit") and not s.get("hasVar"):
            # branches that only update the state and scalar locals are JOINED (the code after the `if` is emitted once):
            #   let (s, v…) ← (if c then (do …; pure (s, v…)) else (do …; pure (s, v…)))
            inner = s["inner"]
            did_of = {v: kk for kk, v in self.locals.items()}
            objish = set(self.pktvars.values()) | set(self.pktlists.values())
            assigned = [nm for nm in self.local_ty if (nm in did_of and any(self.assigns(b, did_of[nm]) for b in inner[1:])) or nm in objish]
            tup = "(s%s)" % "".join(", " + a for a in assigned)
            B = []
            c = self.cond(inner[0], B)
            saved_l, saved_t, saved_p = dict(self.locals), dict(self.local_ty), dict(self.prov)
            th = self.stmt(inner[1], lambda i2: "  " * i2 + "pure %s" % tup, ind + 2)
            self.locals, self.local_ty, self.prov = dict(saved_l), dict(saved_t), dict(saved_p)
            el = self.stmt(inner[2], lambda i2: "  " * i2 + "pure %s" % tup, ind + 2) if len(inner) > 2 else "  " * (ind + 2) + "pure %s" % tup
            self.locals, self.local_ty, self.prov = saved_l, saved_t, saved_p
            code = "%slet %s ← (if %s then (do\n%s)\n%s  else (do\n%s))\n" % (pad, tup, c, th, pad, el)
            return self.with_binds(B, code + k(ind), ind)
        if kind == "ReturnStmt" and s.get("inner") and self.fn.ret[0] in ("pktlist", "pktptr"):
            x = s["inner"][0]
            while x.get("kind") in ("CXXConstructExpr", "ImplicitCastExpr", "MaterializeTemporaryExpr", "ExprWithCleanups", "CXXBindTemporaryExpr") and x.get("inner") and len(x["inner"]) == 1:
                x = x["inner"][0]
            if self.fn.ret[0] == "pktptr":
                B = []
                pv = self.packet_value(s["inner"][0], B)
                if pv is None:
                    raise Untranslatable("returned packet")
                return self.with_binds(B, pad + "pure (s, %s)" % pv, ind)
            if x.get("kind") == "CXXConstructExpr" and not x.get("inner"):
                return pad + "pure (s, [])"
            if x.get("kind") == "DeclRefExpr" and x["referencedDecl"]["id"] in self.pktlists:
                return pad + "pure (s, %s)" % self.pktlists[x["referencedDecl"]["id"]]
            if x.get("kind") == "CallExpr":
                c = self.strip_casts(x["inner"][0])
                nm = "ext_" + re.sub(r"[^A-Za-z0-9_]", "_", c.get("referencedDecl", {}).get("name", "f"))
                B = []
                argv = [self.ex(a, B) for a in x["inner"][1:]]
                if len(argv) != 2:
                    raise Untranslatable("external packet-list function")
                if nm not in self.ext_fns:
                    self.ext_fns.append(nm)
                self.fn.uses_mem = True
                return self.with_binds(B, pad + "pure (s, (%s m %s).map Sum.inr)" % (nm, " ".join(argv)), ind)
            raise Untranslatable("returned packet list")
        if kind == "ReturnStmt" and s.get("inner"):
            # returning the moved-out frames
            x = s["inner"][0]
            while x.get("kind") in ("CXXConstructExpr", "ImplicitCastExpr", "MaterializeTemporaryExpr", "ExprWithCleanups", "CXXBindTemporaryExpr") and x.get("inner"):
                x = x["inner"][0]
            if x.get("kind") == "DeclRefExpr" and x["referencedDecl"]["id"] in self.locals and self.fn.ret[0] == "frames":
                return pad + "pure (s, %s)" % self.locals[x["referencedDecl"]["id"]]
        return FnTr.stmt(self, s, k, ind)

    def while_stmt(self, s, k, ind):
        cond, body = s["inner"][0], s["inner"][1]
        if self.contains(body, ("ContinueStmt", "ReturnStmt")):
            raise Untranslatable("continue / return inside a loop")
        self.has_fuel = True
        self.nloops += 1
        name = "%s_loop%d" % (self.T.lean_name(self.node), self.nloops)
        live = list(self.local_ty.items())              # everything in scope, in declaration order
        # the two halves of a key-typed local are loop parameters only if the loop mentions the local (a key built once in front of
        # the loop and used only there must not change the loop's signature)
        def mentions(n, did):
            if isinstance(n, dict):
                if n.get("kind") == "DeclRefExpr" and n.get("referencedDecl", {}).get("id") == did:
                    return True
                return any(mentions(c, did) for c in n.get("inner", []))
            return False
        for did, pair in self.keyvars.items():
            if not (mentions(cond, did) or mentions(body, did)):
                halves = set(x.strip() for x in pair.strip("()").split(","))
                live = [(nm, ty) for nm, ty in live if nm not in halves]
        did_of = {v: kk for kk, v in self.locals.items()}
        objish = set(self.pktvars.values()) | set(self.pktlists.values())
        assigned = [nm for nm, _ in live if (nm in did_of and self.assigns(body, did_of[nm])) or nm in objish]
        params = " ".join("(%s : %s)" % (nm, ty) for nm, ty in live)
        args = " ".join(nm for nm, _ in live)
        ret_tuple = "(s%s)" % "".join(", " + a for a in assigned)
        ret_ty = "%s_St%s" % (self.cls.lean, "".join(" × " + dict(live)[a] for a in assigned))
        B = []
        c = self.cond(cond, B)
        saved_ty = dict(self.local_ty)
        self.break_k.append(lambda i2: "  " * i2 + "pure %s" % ret_tuple)        # `break` leaves the loop with the current values
        body_code = self.stmt(body, lambda i2: "  " * i2 + "%s fuel s ⟪M⟫%s" % (name, args), 3)
        self.break_k.pop()
        self.local_ty = saved_ty
        mem = bool(self.fn.uses_mem)
        body_code = body_code.replace("⟪M⟫", "m " if mem else "")
        if mem:
            params = "(m : Bytes) " + params
            args = "m " + args
        code = ["def %s %s(fuel : Nat) (s : %s_St) %s : Option (%s) :=" % (name, "{F : Type} " if "⊕ F" in params + ret_ty else "", self.cls.lean, params, ret_ty),
                "  match fuel with",
                "  | 0 => none",
                "  | fuel + 1 => do"]
        code += ["    " + b for b in B]
        code.append("    if %s then" % c)
        code.append(body_code)
        code.append("    else")
        code.append("      pure %s" % ret_tuple)
        self.aux.append("\n".join(code) + "\n")
        pad = "  " * ind
        return pad + "let %s ← %s fuel s %s\n" % (ret_tuple, name, args) + k(ind)


class ObjTranslator:
    def __init__(self, T, class_qual, elem=None):
        self.T = T
        self.elem = elem          # translator of the element class of a map member
        rec = None
        for r in T.tu.records():
            if T.tu.qualname(r) == class_qual:
                rec = r
        if rec is None:
            raise Untranslatable("class %s not found" % class_qual)
        self.cls = ClassInfo(T, rec)
        self.cls.elem = elem.cls if elem is not None else None
        self.fns = {}
        self.order = []
        self.failed = {}

    def translate(self, defnode):
        key = id(defnode)
        if key in self.fns:
            f = self.fns[key]
            if isinstance(f, Untranslatable):
                raise f
            if f is None:
                raise Untranslatable("recursive call")
            return f
        self.fns[key] = None
        try:
            f = ObjFn(self, defnode).run_obj()
        except Untranslatable as e:
            self.fns[key] = e
            self.failed[self.T.tu.qualname(defnode)] = str(e)
            raise
        self.fns[key] = f
        self.order.append(f)
        return f

    def run(self):
        for n in self.T.all_functions():
            ctx = self.T.tu.context(n)
            if n["kind"] in ("CXXMethodDecl",) and ctx is not None and self.T.tu.qualname(ctx) == self.cls.qual:
                try:
                    self.translate(n)
                except Untranslatable:
                    pass
                except (KeyError, IndexError, TypeError, AttributeError, ValueError, AssertionError) as e:
                    self.failed[self.T.tu.qualname(n)] = "unexpected AST shape %r" % (e,)

    def run_ctors(self):
        for lst in self.T.tu.nodes.values():
            for n in lst:
                if n["kind"] == "CXXConstructorDecl" and TU.body_of(n) is not None and not n.get("isImplicit"):
                    ctx = self.T.tu.context(n)
                    if ctx is not None and self.T.tu.qualname(ctx) == self.cls.qual and any(c.get("kind") == "ParmVarDecl" for c in n.get("inner", [])):
                        try:
                            self.translate(n)
                        except Untranslatable:
                            pass
                        except (KeyError, IndexError, TypeError, AttributeError, ValueError, AssertionError) as e:
                            self.failed[self.T.tu.qualname(n) + " (constructor)"] = "unexpected AST shape %r" % (e,)

    def default_state(self):
        """the state a defaulted constructor leaves: the members' default initialisers"""
        h = ObjFn(self, self.cls.rec)
        vals = []
        for nm, k, ct in self.cls.fields:
            if k in ("bytes", "frames", "map"):
                vals.append("f_%s := []" % nm)
                continue
            fd = [x for x in self.cls.rec.get("inner", []) if x.get("kind") == "FieldDecl" and x.get("name") == nm][0]
            init = [x for x in fd.get("inner", []) if x.get("kind") not in ("FullComment",)]
            if not init:
                raise Untranslatable("member %s without default initialiser" % nm)
            B = []
            e0 = init[0]
            while e0.get("kind") in ("InitListExpr", "CXXFunctionalCastExpr", "ImplicitCastExpr", "ConstantExpr") and e0.get("kind") == "InitListExpr" and len(e0.get("inner", [])) == 1:
                e0 = e0["inner"][0]
            if e0.get("kind") == "InitListExpr" and not e0.get("inner"):
                v = "0"
            else:
                v = h.ex(e0, B)
            if B:
                raise Untranslatable("default initialiser with effects")
            vals.append("f_%s := %s" % (nm, v))
        return "def %s_default : %s_St := { %s }\n" % (self.cls.lean, self.cls.lean, ", ".join(vals))

    def emit(self):
        out = [self.cls.struct()]
        try:
            out.append(self.default_state())
        except Untranslatable:
            pass
        for f in self.order:
            for a in f.aux:
                out.append(a)
            ps = []
            for nm, t in f.params:
                ps.append("(%s : %s)" % (nm, "PktIn" if t[0] == "pkt" else ("OPkt" if t[0] == "opkt" else ("Bool" if t[0] == "b" else "Nat"))))
            rt = {"v": "Unit", "b": "Bool", "frames": "List Bytes", "pktlist": "List (PktOut ⊕ F)", "pktptr": "PktOut"}.get(f.ret[0], "Nat")
            for e_ in getattr(f, "ext_fns", []):
                ps.append("(%s : Bytes → Nat → Nat → List F)" % e_)
            if getattr(f, "outbuf", False):
                rt = "Bytes"
            for o in getattr(f, "opaque", []):
                ps.append("(%s : Nat)" % o)
            out.append("/-- `%s` -/" % f.qual)
            if f.uses_mem:
                ps.insert(0, "(m : Bytes)")
            out.append("def %s_obj %s%s(s : %s_St) %s : Option (%s_St × %s) := do" % (f.lean, "{F : Type} " if f.ret[0] == "pktlist" else "", "(fuel : Nat) " if f.has_fuel else "", self.cls.lean,
                                                                                    " ".join(ps), self.cls.lean, rt))
            out.append(f.body)
            out.append("")
        out.append("def %s_untranslated : List (String × String) := [%s]" % (
            self.cls.lean, ", ".join('("%s", "%s")' % (k, v.replace('"', "'")[:100]) for k, v in sorted(self.failed.items()))))
        return "\n".join(out) + "\n"


# =====================================================================================================================
# Status tracker: classes whose members are vectors of objects of another translated class and stored packets.
# A stored / passed `Packet` is OPAQUE here: `OPkt` is the table of the values its getter chains return
# (`opq p "getDeviceId"`, `opq p "getPayload.getType"`, `opq p "getPayload.as_InterfacePayload.getInterfaceId"`).
# =====================================================================================================================

def st_field_kind(T, fd):
    t = fd.get("type", {})
    q = strip_cv(t.get("desugaredQualType") or t.get("qualType") or "")
    m = re.fullmatch(r"std::vector<(.*?)(?:, std::allocator<.*>)?>", q)
    if m and m.group(1) not in ("unsigned char", "uint8_t"):
        return ("objvec", m.group(1))
    if q in ("ASAM::CMP::Packet", "Packet"):
        return ("opkt", None)
    return ("scalar", None)


class StClassInfo(ClassInfo):
    def __init__(self, T, rec, elem=None):
        self.T = T
        self.rec = rec
        self.elem = elem
        self.qual = T.tu.qualname(rec)
        self.lean = T.ident(self.qual)
        self.fields = []
        for c in rec.get("inner", []):
            if c.get("kind") == "FieldDecl" and c.get("name"):
                k, el = st_field_kind(T, c)
                ct = None
                if k == "scalar":
                    try:
                        ct = T.ctype(c.get("type"))
                    except Untranslatable:
                        continue
                    if ct[0] not in ("i", "b"):
                        continue
                self.fields.append((c["name"], k, ct))
        self.by_name = {f[0]: f for f in self.fields}

    def struct(self):
        out = ["/-- state of `%s`: one field per data member -/" % self.qual, "structure %s_St where" % self.lean]
        for nm, k, ct in self.fields:
            ty = {"objvec": "List %s_St" % (self.elem.cls.lean if self.elem else "Unit"), "opkt": "OPkt"}.get(k) or ("Bool" if ct[0] == "b" else "Nat")
            out.append("  f_%s : %s" % (nm, ty))
        out.append("deriving Repr, Inhabited\n")
        return "\n".join(out)


class StFn(ObjFn):
    def __init__(self, OT, node):
        ObjFn.__init__(self, OT, node)
        self.opkts = {}        # decl id of a packet parameter -> lean name
        self.elemvars = {}     # decl id of a lambda parameter / local object of the element class -> lean name
        self.iters = {}        # decl id of a local iterator obtained by find_if -> lean index expression

    # ---------------------------------------------------------------- entry: packet parameters are opaque tables
    def run_obj(self):
        n = self.node
        for c in n.get("inner", []):
            if c.get("kind") == "ParmVarDecl":
                q = c.get("type", {}).get("qualType", "")
                if strip_cv(q.rstrip("&").strip()) in ("ASAM::CMP::Packet", "Packet") and q.strip().endswith("&"):
                    self.opkts[c["id"]] = self.vname(c.get("name"), "a_")
        return ObjFn.run_obj(self)

    # ---------------------------------------------------------------- opaque packet chains
    def chain(self, n):
        """(lean packet expression, key) if n is a chain of member calls / reference casts rooted at an opaque packet"""
        while n.get("kind") in ("ParenExpr", "ImplicitCastExpr", "MaterializeTemporaryExpr", "CXXBindTemporaryExpr", "ExprWithCleanups") and n.get("castKind") not in ("UserDefinedConversion", "ConstructorConversion"):
            n = n["inner"][0]
        k = n.get("kind")
        if k == "DeclRefExpr" and n["referencedDecl"]["id"] in self.opkts:
            return (self.opkts[n["referencedDecl"]["id"]], "")
        f = self.this_field(n) if k == "MemberExpr" else None
        if f is not None and f[1] == "opkt":
            return ("s.f_%s" % f[0], "")
        if k == "CXXStaticCastExpr" and n.get("castKind") in ("BaseToDerived", "DerivedToBase", "NoOp"):
            r = self.chain(n["inner"][0])
            if r is not None:
                tgt = strip_cv(n["type"]["qualType"].rstrip("&").strip()).split("::")[-1]
                return (r[0], (r[1] + "." if r[1] else "") + "as_" + tgt)
        if k == "CXXMemberCallExpr" and len(n["inner"]) == 1:
            me = n["inner"][0]
            if me.get("kind") == "MemberExpr":
                base = me["inner"][0]
                b = base
                while b.get("kind") in ("ParenExpr", "ImplicitCastExpr"):
                    b = b["inner"][0]
                # element.getPacket(): a method of the element class whose body is `return <packet member>;`
                if b.get("kind") == "DeclRefExpr" and b["referencedDecl"]["id"] in self.elemvars:
                    fld = self.returns_member(me.get("referencedMemberDecl"), self.OT.elem)
                    if fld is not None and fld[1] == "opkt":
                        return ("%s.f_%s" % (self.elemvars[b["referencedDecl"]["id"]], fld[0]), "")
                    return None
                r = self.chain(base)
                if r is not None:
                    return (r[0], (r[1] + "." if r[1] else "") + me.get("name"))
        return None

    def returns_member(self, declid, OT):
        """the member a trivial accessor returns (`return member;`), looked up in translator OT's class"""
        if OT is None or declid is None:
            return None
        try:
            d = self.T.definition(declid)
        except Untranslatable:
            return None
        body = TU.body_of(d).get("inner", [])
        if len(body) != 1 or body[0].get("kind") != "ReturnStmt" or not body[0].get("inner"):
            return None
        e = body[0]["inner"][0]
        while e.get("kind") in ("ParenExpr", "ImplicitCastExpr"):
            e = e["inner"][0]
        if e.get("kind") == "MemberExpr" and e.get("isArrow") and e["inner"][0].get("kind") == "CXXThisExpr":
            return OT.cls.by_name.get(e.get("name"))
        return None

    # ---------------------------------------------------------------- vectors of objects
    def objvec_of(self, n):
        while n.get("kind") in ("ParenExpr", "ImplicitCastExpr", "MaterializeTemporaryExpr"):
            n = n["inner"][0]
        f = self.this_field(n) if n.get("kind") == "MemberExpr" else None
        if f is not None and f[1] == "objvec":
            return f[0]
        return None

    def elem_ref(self, n, B):
        """(vector field, index lean expr) if n is `this->vec[idx]`"""
        while n.get("kind") in ("ParenExpr", "ImplicitCastExpr", "MaterializeTemporaryExpr"):
            n = n["inner"][0]
        if n.get("kind") == "CXXOperatorCallExpr" and self.strip_casts(n["inner"][0]).get("referencedDecl", {}).get("name") == "operator[]":
            v = self.objvec_of(n["inner"][1])
            if v is not None:
                return v, self.ex(n["inner"][2], B)
        return None

    def lambda_pred(self, lam, vecfield):
        """Lean predicate `fun e_ => …` of a one-return lambda over the element class"""
        body = [c for c in lam.get("inner", []) if c.get("kind") == "CompoundStmt"]
        rec = [c for c in lam.get("inner", []) if c.get("kind") == "CXXRecordDecl"]
        if not body or not rec:
            raise Untranslatable("lambda shape")
        op = [c for c in rec[0].get("inner", []) if c.get("kind") == "CXXMethodDecl" and c.get("name") == "operator()"]
        params = [c for c in op[0].get("inner", []) if c.get("kind") == "ParmVarDecl"] if op else []
        stmts = body[-1].get("inner", [])
        if len(params) != 1 or len(stmts) != 1 or stmts[0].get("kind") != "ReturnStmt":
            raise Untranslatable("lambda shape")
        self.elemvars[params[0]["id"]] = "e_"
        B = []
        c = self.cond(stmts[0]["inner"][0], B)
        del self.elemvars[params[0]["id"]]
        if B:
            raise Untranslatable("lambda with effects")
        return "(fun e_ => %s)" % c

    # ---------------------------------------------------------------- expressions
    def ex(self, n, B):
        k = n.get("kind")
        x = n
        while x.get("kind") in ("ParenExpr", "ImplicitCastExpr", "MaterializeTemporaryExpr", "ExprWithCleanups", "CXXBindTemporaryExpr") and x.get("castKind") in (None, "IntegralCast", "NoOp", "LValueToRValue"):
            if x.get("castKind") == "IntegralCast":
                break
            x = x["inner"][0]
        xk = x.get("kind")
        # comparison of an opaque class-typed chain with an enumerator (PayloadType == PayloadType::cmStatMsg)
        if xk == "CXXOperatorCallExpr" and self.strip_casts(x["inner"][0]).get("referencedDecl", {}).get("name") in ("operator==", "operator!=") and len(x["inner"]) == 3:
            op = self.strip_casts(x["inner"][0])["referencedDecl"]["name"][-2:]
            for a, b in ((x["inner"][1], x["inner"][2]), (x["inner"][2], x["inner"][1])):
                r = self.chain(a)
                if r is not None:
                    c = b
                    while c.get("kind") in ("ImplicitCastExpr", "CXXConstructExpr", "MaterializeTemporaryExpr", "CXXFunctionalCastExpr", "ExprWithCleanups", "CXXBindTemporaryExpr") and c.get("inner"):
                        c = c["inner"][0]
                    try:
                        v = self.const_int(c)
                    except Untranslatable:
                        continue
                    return "((opq %s \"%s\") %s %d)" % (r[0], r[1], op, v)
        if xk == "CXXMemberCallExpr":
            r = self.chain(x)
            if r is not None and r[1] and self.ty_is_scalar(x):
                return "(opq %s \"%s\")" % r
            me = x["inner"][0]
            if me.get("kind") == "MemberExpr" and len(x["inner"]) == 1:
                v = self.objvec_of(me["inner"][0])
                if v is not None and me.get("name") == "size":
                    return "(s.f_%s).length" % v
                b = me["inner"][0]
                while b.get("kind") in ("ParenExpr", "ImplicitCastExpr"):
                    b = b["inner"][0]
                if b.get("kind") == "DeclRefExpr" and b["referencedDecl"]["id"] in self.elemvars:
                    fld = self.returns_member(me.get("referencedMemberDecl"), self.OT.elem)
                    if fld is not None and fld[1] == "scalar":
                        return "%s.f_%s" % (self.elemvars[b["referencedDecl"]["id"]], fld[0])
        if xk == "CallExpr":
            nm = self.strip_casts(x["inner"][0]).get("referencedDecl", {}).get("name")
            if nm == "distance" and len(x["inner"]) == 3:
                it = x["inner"][2]
                while it.get("kind") in ("ImplicitCastExpr", "CXXConstructExpr", "MaterializeTemporaryExpr") and it.get("inner"):
                    it = it["inner"][0]
                if it.get("kind") == "DeclRefExpr" and it["referencedDecl"]["id"] in self.iters:
                    return self.iters[it["referencedDecl"]["id"]]
        return ObjFn.ex(self, n, B)

    # ---------------------------------------------------------------- statements
    def stmt(self, s, k, ind):
        if s.get("kind") == "DeclStmt" and len(s.get("inner", [])) == 1:
            d = s["inner"][0]
            init = [c for c in d.get("inner", []) if c.get("kind") not in ("FullComment",)] if d.get("kind") == "VarDecl" else []
            if init:
                e = init[0]
                x = e
                while x.get("kind") in ("ExprWithCleanups", "MaterializeTemporaryExpr", "CXXBindTemporaryExpr", "ImplicitCastExpr", "CXXConstructExpr") and x.get("inner") and len(x["inner"]) == 1:
                    x = x["inner"][0]
                # iterator from std::find_if(vec.begin(), vec.end(), lambda)
                if x.get("kind") == "CallExpr" and self.strip_casts(x["inner"][0]).get("referencedDecl", {}).get("name") == "find_if" and len(x["inner"]) == 4:
                    def vec_of(it, which):
                        while it.get("kind") in ("ImplicitCastExpr", "MaterializeTemporaryExpr", "CXXConstructExpr") and it.get("inner"):
                            it = it["inner"][0]
                        if it.get("kind") == "CXXMemberCallExpr" and it["inner"][0].get("name") == which:
                            return self.objvec_of(it["inner"][0]["inner"][0])
                        return None
                    v1, v2 = vec_of(x["inner"][1], "begin"), vec_of(x["inner"][2], "end")
                    lam = x["inner"][3]
                    while lam.get("kind") != "LambdaExpr" and lam.get("inner"):
                        lam = lam["inner"][0]
                    if v1 is None or v1 != v2 or lam.get("kind") != "LambdaExpr":
                        raise Untranslatable("find_if shape")
                    self.iters[d["id"]] = "(findIdxD %s s.f_%s)" % (self.lambda_pred(lam, v1), v1)
                    return k(ind)
                # default-constructed local object of the element class
                EO = self.OT.elem
                qd = strip_cv(d.get("type", {}).get("desugaredQualType") or d.get("type", {}).get("qualType") or "")
                if EO is not None and e.get("kind") == "CXXConstructExpr" and not e.get("inner") and (qd == EO.cls.qual or EO.cls.qual.endswith("::" + qd)):
                    nm = self.vname(d["name"])
                    self.elemvars[d["id"]] = nm
                    self.local_ty[nm] = "%s_St" % EO.cls.lean
                    return "  " * ind + "let %s := %s_default\n" % (nm, EO.cls.lean) + k(ind)
        return ObjFn.stmt(self, s, k, ind)

    def effect(self, s, B):
        k = s.get("kind")
        if k in ("ExprWithCleanups", "ParenExpr"):
            return self.effect(s["inner"][0], B)
        # packet member = packet
        if k == "CXXOperatorCallExpr" and self.strip_casts(s["inner"][0]).get("referencedDecl", {}).get("name") == "operator=" and len(s["inner"]) == 3:
            f = self.this_field(s["inner"][1]) if self.strip_casts(s["inner"][1]).get("kind") == "MemberExpr" else None
            r = self.chain(s["inner"][2])
            if f is not None and f[1] == "opkt" and r is not None and r[1] == "":
                B.append("let s := { s with f_%s := %s }" % (f[0], r[0]))
                return
        if k == "CallExpr" and self.strip_casts(s["inner"][0]).get("referencedDecl", {}).get("name") == "swap" and len(s["inner"]) == 3:
            a, b = self.elem_ref(s["inner"][1], B), self.elem_ref(s["inner"][2], B)
            if a is not None and b is not None and a[0] == b[0]:
                t = self.fresh()
                B.append("let %s ← swapIdx s.f_%s %s %s" % (t, a[0], a[1], b[1]))
                B.append("let s := { s with f_%s := %s }" % (a[0], t))
                return
            raise Untranslatable("swap shape")
        return ObjFn.effect(self, s, B)

    def call(self, n, B, want_value):
        inner = n["inner"]
        if n["kind"] == "CXXMemberCallExpr":
            me = inner[0]
            while me.get("kind") in ("ParenExpr", "ImplicitCastExpr"):
                me = me["inner"][0]
            if me.get("kind") == "MemberExpr":
                nm = me.get("name")
                v = self.objvec_of(me["inner"][0])
                if v is not None:
                    if nm == "clear" and len(inner) == 1:
                        B.append("let s := { s with f_%s := [] }" % v)
                        return None
                    if nm == "pop_back" and len(inner) == 1:
                        B.append("let _ ← nonEmptyL s.f_%s" % v)
                        B.append("let s := { s with f_%s := (s.f_%s).dropLast }" % (v, v))
                        return None
                    if nm == "push_back" and len(inner) == 2:
                        a = inner[1]
                        while a.get("kind") in ("ImplicitCastExpr", "MaterializeTemporaryExpr", "CXXBindTemporaryExpr", "ExprWithCleanups", "CXXConstructExpr") and a.get("inner") and len(a["inner"]) == 1:
                            a = a["inner"][0]
                        if a.get("kind") == "CallExpr" and self.strip_casts(a["inner"][0]).get("referencedDecl", {}).get("name") == "move":
                            a = a["inner"][1]
                            while a.get("kind") in ("ImplicitCastExpr", "ParenExpr"):
                                a = a["inner"][0]
                        if a.get("kind") == "DeclRefExpr" and a["referencedDecl"]["id"] in self.elemvars:
                            B.append("let s := { s with f_%s := s.f_%s ++ [%s] }" % (v, v, self.elemvars[a["referencedDecl"]["id"]]))
                            return None
                        raise Untranslatable("push_back argument")
                # method of an element: this->vec[idx].m(args)  /  localElement.m(args)
                er = self.elem_ref(me["inner"][0], B)
                b = me["inner"][0]
                while b.get("kind") in ("ParenExpr", "ImplicitCastExpr"):
                    b = b["inner"][0]
                loc = self.elemvars.get(b["referencedDecl"]["id"]) if b.get("kind") == "DeclRefExpr" else None
                if er is not None or loc is not None:
                    EO = self.OT.elem
                    g = EO.translate(self.T.definition(me["referencedMemberDecl"]))
                    argv = []
                    for a in inner[1:]:
                        r = self.chain(a)
                        argv.append(r[0] if (r is not None and r[1] == "") else self.ex(a, B))
                    rr = self.fresh()
                    if er is not None:
                        e = self.fresh("el")
                        B.append("let %s ← getIdx s.f_%s %s" % (e, er[0], er[1]))
                        B.append("let (%s, %s) ← %s_obj %s %s" % (e, rr, g.lean, e, " ".join(argv)))
                        B.append("let s := { s with f_%s := (s.f_%s).set %s %s }" % (er[0], er[0], er[1], e))
                    else:
                        B.append("let (%s, %s) ← %s_obj %s %s" % (loc, rr, g.lean, loc, " ".join(argv)))
                    return None if g.ret[0] == "v" else rr
                # method of the same object taking packets
                base = me["inner"][0]
                while base.get("kind") in ("ParenExpr", "ImplicitCastExpr"):
                    base = base["inner"][0]
                if base.get("kind") == "CXXThisExpr" and me.get("isArrow"):
                    g = self.OT.translate(self.T.definition(me["referencedMemberDecl"]))
                    argv = []
                    for a in inner[1:]:
                        r = self.chain(a)
                        argv.append(r[0] if (r is not None and r[1] == "") else self.ex(a, B))
                    if len(argv) != len(g.params):
                        raise Untranslatable("argument count")
                    callc = "%s_obj s %s" % (g.lean, " ".join(argv))
                    if g.ret[0] == "v":
                        B.append("let (s, _) ← %s" % callc)
                        return None
                    rr = self.fresh()
                    B.append("let (s, %s) ← %s" % (rr, callc))
                    return rr
        return ObjFn.call(self, n, B, want_value)


class StTranslator(ObjTranslator):
    def __init__(self, T, class_qual, elem=None):
        self.T = T
        self.elem = elem
        rec = None
        for r in T.tu.records():
            if T.tu.qualname(r) == class_qual:
                rec = r
        if rec is None:
            raise Untranslatable("class %s not found" % class_qual)
        self.cls = StClassInfo(T, rec, elem)
        self.fns = {}
        self.order = []
        self.failed = {}

    def translate(self, defnode):
        key = id(defnode)
        if key in self.fns:
            f = self.fns[key]
            if isinstance(f, Untranslatable):
                raise f
            if f is None:
                raise Untranslatable("recursive call")
            return f
        self.fns[key] = None
        try:
            f = StFn(self, defnode).run_obj()
            f.params = [(nm, t) for nm, t in f.params]
        except Untranslatable as e:
            self.fns[key] = e
            self.failed[self.T.tu.qualname(defnode) + " " + defnode.get("type", {}).get("qualType", "")[:40]] = str(e)
            raise
        self.fns[key] = f
        self.order.append(f)
        return f

    def default_state(self):
        vals = []
        h = StFn(self, self.cls.rec)
        for nm, k, ct in self.cls.fields:
            if k == "objvec":
                vals.append("f_%s := []" % nm)
            elif k == "opkt":
                vals.append("f_%s := defaultPacket" % nm)
            else:
                fd = [x for x in self.cls.rec.get("inner", []) if x.get("kind") == "FieldDecl" and x.get("name") == nm][0]
                init = [x for x in fd.get("inner", []) if x.get("kind") not in ("FullComment",)]
                e0 = init[0] if init else None
                while e0 is not None and e0.get("kind") == "InitListExpr" and len(e0.get("inner", [])) == 1:
                    e0 = e0["inner"][0]
                if e0 is None:
                    raise Untranslatable("member %s without default initialiser" % nm)
                B = []
                vals.append("f_%s := %s" % (nm, "0" if (e0.get("kind") == "InitListExpr") else h.ex(e0, B)))
        return "def %s_default : %s_St := { %s }\n" % (self.cls.lean, self.cls.lean, ", ".join(vals))


# =====================================================================================================================
# PACKET VALUE MODE: `PayloadType`, `Payload` (+ the constructors of its subclasses that `Packet::create` reaches) and `Packet` with
# its owned payload, as VALUES.
#
#   * a class with one scalar data member (`PayloadType`) is FLAT: an object is the bit pattern of that member (a `Nat`);
#   * a class with data members is a Lean record (`Payload_St`, `PacketV_St`), one field per member in declaration order:
#     scalars, `std::vector<uint8_t>` (Bytes), members of a flat class (Nat), `std::unique_ptr<C>` (`Option C_St`; `get()` /
#     `operator bool` = `isSome`, `*p` / `p->` on a null pointer = undefined = `none`);
#   * a class derived from a record class without data members of its own shares the record of its base (its dynamic type is not
#     observable through the translated functions); its constructors are followed through their base initialisers;
#   * methods are `State -> args -> Option (State x result)`, constructors `args -> Option State`, free functions
#     `args -> Option result`; a non-const reference parameter of a record class is in-out (its final value is an extra result);
#     two reference parameters / `this` and a reference parameter denote DISTINCT objects in the function of the plain name; from the
#     same body the ALIASING variants are generated: `…_self_pv` for a non-const method with a reference parameter of its own class
#     (that parameter IS `*this`: no Lean parameter, every read / write through it goes to the current `s`; a comparison of `this`
#     with its address is `true`) and `…_same_pv` for a function with two non-const reference parameters of one record class (both
#     denote the one object `s`).  A call whose object arguments are the same place calls the callee's aliasing variant;
#     `std::swap(a, a)` is translated as the moves it is (read, read, write, write: the identity); an overlap the variants cannot
#     express (an object and a sub-object of it, a const reference to a mutated argument of a free function) fails closed;
#   * the comparison of two pointers into the byte vectors of two objects cannot be decided from values: it is the explicit
#     Bool parameter `g_samePtr` of the function (and of its callers);
#   * loops are recursion on fuel; a `return` inside a loop leaves it with `some value`.
# Everything of these classes that has a body and is not translated is listed, with the reason, in `PacketValue_untranslated`.
# =====================================================================================================================

PV_OPNAMES = {"operator==": "opEq", "operator!=": "opNe", "operator=": "opAssign"}
PV_STRIP = ("ParenExpr", "ExprWithCleanups", "MaterializeTemporaryExpr", "CXXBindTemporaryExpr")


class PvClass:
    def __init__(self, PT, rec, kind, stname=None, root=None):
        T = PT.T
        self.PT = PT
        self.rec = rec
        self.kind = kind            # "flat" | "rec" | "sub"
        self.qual = T.tu.qualname(rec)
        self.name = T.ident(self.qual)
        self.lean = self.name       # ObjFn compatibility
        self.root = root if root is not None else self
        self.stname = stname or self.name
        self.fields = []            # (name, kind, info): kind scalar (info ctype) | bytes | flat (info class) | uptr (info class)
        self.by_name = {}           # ObjFn compatibility: name -> (name, kind, ctype)
        self.elem = None

    def ltype(self):
        if self.kind == "flat":
            return "Nat"
        return "%s_St" % self.root.stname

    def collect_fields(self):
        PT, T = self.PT, self.PT.T
        own = [c for c in self.rec.get("inner", []) if c.get("kind") == "FieldDecl"]
        if any(c.get("kind") == "CXXMethodDecl" and (c.get("virtual") or c.get("pure")) for c in self.rec.get("inner", [])):
            # objects of derived classes share the record of their base: only right while nothing but the destructor is virtual
            raise Untranslatable("class %s has virtual methods (the dynamic type would be observable)" % self.qual)
        if self.kind == "sub":
            if own:
                raise Untranslatable("derived class %s has data members of its own" % self.qual)
            return
        if self.rec.get("bases"):
            raise Untranslatable("class %s has base classes" % self.qual)
        for c in own:
            if not c.get("name") or c.get("isBitfield") or c.get("mutable"):
                raise Untranslatable("unnamed / bit-field / mutable member in %s" % self.qual)
            t = c.get("type", {})
            q = strip_cv(t.get("desugaredQualType") or t.get("qualType") or "")
            if q in BYTES:
                self.fields.append((c["name"], "bytes", None))
                continue
            pv = PT.pvtype(t)
            if pv is not None and pv[0] == "flat":
                self.fields.append((c["name"], "flat", pv[1]))
                continue
            if pv is not None and pv[0] == "uptr":
                self.fields.append((c["name"], "uptr", pv[1]))
                continue
            if pv is not None:
                raise Untranslatable("member %s::%s of type %s" % (self.qual, c["name"], q))
            ct = T.ctype(t)
            if ct[0] not in ("i", "b"):
                raise Untranslatable("member %s::%s of type %s" % (self.qual, c["name"], q))
            self.fields.append((c["name"], "scalar", ct))
        if self.kind == "flat" and not (len(self.fields) == 1 and self.fields[0][1] == "scalar" and self.fields[0][2][0] == "i"):
            raise Untranslatable("class %s is not a single-scalar class" % self.qual)
        self.by_name = {f[0]: (f[0], f[1], f[2] if f[1] == "scalar" else None) for f in self.fields}

    def field_ltype(self, f):
        nm, k, info = f
        if k == "bytes":
            return "Bytes"
        if k == "flat":
            return "Nat"
        if k == "uptr":
            return "Option %s" % info.ltype()
        return "Bool" if info[0] == "b" else "Nat"

    def struct(self):
        out = ["/-- value of a `%s` object: one field per data member, in declaration order -/" % self.qual, "structure %s_St where" % self.stname]
        for f in self.fields:
            out.append("  f_%s : %s" % (f[0], self.field_ltype(f)))
        out.append("deriving Repr, Inhabited, DecidableEq\n")
        return "\n".join(out)


class Place:
    """where an object / member lives in the translated state, and how it is read and written back"""

    def __init__(self, kind, ty, name=None, base=None, field=None, const=False):
        self.kind = kind      # var | field | deref
        self.ty = ty          # ("obj", cls) | ("flat", cls) | ("uptr", cls) | ("bytes",) | scalar ctype
        self.name = name
        self.base = base
        self.field = field
        self.const = const

    def pure(self):
        """Lean term without binds, or None (a dereference needs a bind)"""
        if self.kind == "var":
            return self.name
        if self.kind == "field":
            b = self.base.pure()
            return None if b is None else "%s.f_%s" % (b, self.field)
        return None

    def read(self, fn, B):
        if self.kind == "var":
            return self.name
        if self.kind == "field":
            return "%s.f_%s" % (self.base.read(fn, B), self.field)
        t = fn.fresh("d")
        B.append("let %s ← %s" % (t, self.base.read(fn, B)))        # `*p` / `p->` on a null unique_ptr: undefined
        return t

    def write(self, fn, v, B):
        if self.const:
            raise Untranslatable("write to a const object")
        if self.kind == "var":
            B.append("let %s := %s" % (self.name, v))
            return
        if self.kind == "field":
            b = self.base.pure()
            if b is None:
                b = self.base.read(fn, B)
            self.base.write(fn, "{ %s with f_%s := %s }" % (b, self.field, v), B)
            return
        self.base.write(fn, "(some %s)" % v, B)

    def retyped(self, ty):
        p = Place(self.kind, ty, self.name, self.base, self.field, self.const)
        return p

    def key(self):
        """access path: two places are the same object iff their paths are equal, and overlap iff one is a prefix of the other
        (different variables are different objects: by-value locals and, by the convention of this mode, distinct parameters)"""
        if self.kind == "var":
            return (("v", self.name),)
        if self.kind == "field":
            return self.base.key() + (("f", self.field),)
        return self.base.key() + (("*",),)


class PvFnInfo:
    """what a caller needs to know about a translated function"""
    pass


class PvFn(ObjFn):
    def __init__(self, PT, node, alias=None):
        FnTr.__init__(self, PT.T, node)
        ObjFn.__init__(self, PT, node)
        self.PT = PT
        self.alias = alias      # None | "self" (a reference parameter IS *this) | "same" (two reference parameters are one object)
        self.alias_const = True # "self": the aliased parameter is a const reference
        self.objs = {}          # decl id -> Place of an object / flat / unique_ptr parameter or local
        self.inout = []         # (lean name, lean type) of the non-const reference parameters, in order
        self.gparams = []       # explicit Bool parameters standing for undecidable pointer comparisons
        self.has_s = False
        self.is_ctor = False
        self.addr_cmp = False   # compares `this` with the address of a parameter
        self.alias_of = None    # decl id of the parameter that IS `*this` in the `_self` variant
        self.this_override = None
        self.loop_ret = []      # stack of loop result builders
        self.ret_lty = None
        self.ret_self = False
        self.pcls = None
        self.const_this = False

    # ------------------------------------------------------------------ helpers
    def strip(self, n, casts=("NoOp", "DerivedToBase", "UncheckedDerivedToBase", "ConstructorConversion")):
        while True:
            k = n.get("kind")
            if k in PV_STRIP and n.get("inner"):
                n = n["inner"][0]
            elif k == "ImplicitCastExpr" and n.get("castKind") in casts:
                n = n["inner"][0]
            else:
                return n

    def pvty(self, n):
        return self.PT.pvtype(n.get("type"))

    def this_place(self):
        if self.this_override is not None:
            return self.this_override
        if not self.has_s:
            raise Untranslatable("`this` in a function without object")
        return Place("var", (self.pcls.kind == "flat" and ("flat", self.pcls)) or ("obj", self.pcls), name="s", const=self.const_this)

    def this_field(self, n):
        # the ObjFn paths that read `s.f_x` directly are only right for a record class and the real `this`
        if self.pcls is None or self.pcls.kind == "flat" or self.this_override is not None:
            return None
        f = ObjFn.this_field(self, n)
        if f is not None and f[1] not in ("scalar", "bytes"):
            return None
        return f

    def callee_decl(self, n):
        """declaration id of the function an expression calls, or None"""
        k = n.get("kind")
        if k == "CXXMemberCallExpr":
            me = n["inner"][0]
            while me.get("kind") in ("ParenExpr", "ImplicitCastExpr"):
                me = me["inner"][0]
            if me.get("kind") == "MemberExpr":
                return me.get("referencedMemberDecl")
            return None
        if k in ("CallExpr", "CXXOperatorCallExpr"):
            c = self.strip_casts(n["inner"][0])
            if c.get("kind") == "DeclRefExpr":
                return c.get("referencedDecl", {}).get("id")
        return None

    # ------------------------------------------------------------------ places (object lvalues)
    def place(self, n, B):
        """Place denoted by an lvalue expression, or None if it is not one of the value-mode shapes"""
        n = self.strip(n)
        k = n.get("kind")
        if k == "CXXThisExpr":
            return None
        if k == "UnaryOperator" and n.get("opcode") == "*":
            x = self.strip(n["inner"][0])
            if x.get("kind") == "CXXThisExpr":
                return self.this_place()
            # *p.get()
            if x.get("kind") == "CXXMemberCallExpr" and len(x["inner"]) == 1:
                me = x["inner"][0]
                if me.get("kind") == "MemberExpr" and me.get("name") == "get":
                    p = self.place(me["inner"][0], B)
                    if p is not None and p.ty[0] == "uptr":
                        return Place("deref", ("obj", p.ty[1]), base=p, const=False)
            return None
        if k == "DeclRefExpr":
            did = n["referencedDecl"]["id"]
            if self.alias == "self" and did == self.alias_of:
                p = self.this_place()
                return Place(p.kind, p.ty, p.name, p.base, p.field, const=p.const or self.alias_const)
            return self.objs.get(did)
        if k == "CallExpr" and len(n["inner"]) == 2 and self.is_std_move(n):
            return self.place(n["inner"][1], B)      # std::move(x) is x (a cast to an rvalue reference)
        if k == "CXXOperatorCallExpr" and len(n["inner"]) == 2:
            nm = self.strip_casts(n["inner"][0]).get("referencedDecl", {}).get("name")
            if nm in ("operator*", "operator->"):
                p = self.place(n["inner"][1], B)
                if p is not None and p.ty[0] == "uptr":
                    # the pointee of a const unique_ptr is not const
                    return Place("deref", ("obj", p.ty[1]), base=p, const=False)
            return None
        if k == "MemberExpr":
            fd = self.tu.decl(n["referencedMemberDecl"])
            if fd.get("kind") != "FieldDecl":
                return None
            b = self.strip(n["inner"][0])
            if n.get("isArrow"):
                if b.get("kind") == "CXXThisExpr":
                    base = self.this_place()
                elif b.get("kind") == "CXXOperatorCallExpr":
                    base = self.place(b, B)        # p->member
                else:
                    return None
            else:
                base = self.place(b, B)
            if base is None or base.ty[0] not in ("obj", "flat"):
                return None
            cls = base.ty[1].root if base.ty[0] == "obj" else base.ty[1]
            fld = [f for f in cls.fields if f[0] == n.get("name")]
            owner = self.tu.context(fd)
            if len(fld) != 1 or owner is None or self.tu.qualname(owner) != cls.qual:
                raise Untranslatable("member %s of %s" % (n.get("name"), cls.qual))
            nm, fk, info = fld[0]
            ty = {"bytes": ("bytes",), "flat": ("flat", info), "uptr": ("uptr", info)}.get(fk) or info
            if base.ty[0] == "flat":
                return base.retyped(ty)            # the object IS its member
            return Place("field", ty, base=base, field=nm, const=base.const)
        return None

    def is_std_move(self, n):
        rd = self.strip_casts(n["inner"][0]).get("referencedDecl", {})
        return rd.get("name") == "move" and rd.get("id") not in self.tu.nodes

    def moved_uptr(self, n, B):
        """`std::move(p)` of a unique_ptr place consumed by a move constructor / move assignment: the value; `p` is left null"""
        p = self.place(n["inner"][1], B)
        if p is None or p.ty[0] != "uptr":
            raise Untranslatable("std::move of something that is not a unique_ptr member / local")
        t = self.fresh()
        B.append("let %s := %s" % (t, p.read(self, B)))
        p.write(self, "none", B)
        return t

    # ------------------------------------------------------------------ lvalues of scalars
    def lv(self, n, B):
        x = n
        while x.get("kind") == "ParenExpr":
            x = x["inner"][0]
        if x.get("kind") in ("MemberExpr", "DeclRefExpr"):
            p = self.place(x, B)
            if p is not None:
                if p.ty[0] not in ("i", "b"):
                    raise Untranslatable("non-scalar member used as a scalar")
                return ("place", p)
        if x.get("kind") == "ArraySubscriptExpr":
            base, idx = x["inner"]
            pp = self.pptr(base, B)
            if pp is not None:
                bt = self.ty(base)
                if bt[0] != "p" or self.T.sizeof_type(bt[1]) != 1:
                    raise Untranslatable("subscript of a pointer to non-bytes")
                it = self.ty(idx)
                i = self.ex(idx, B)
                if it[0] != "i":
                    raise Untranslatable("index type")
                if it[2]:
                    t = self.fresh()
                    B.append("let %s ← nonneg %d %s" % (t, it[1], i))
                    i = t
                return ("pmem", pp[0], "(%s + %s)" % (pp[1], i) if pp[1] != "0" else i)
        return ObjFn.lv(self, n, B)

    def load(self, l, B):
        if l[0] == "place":
            return l[1].read(self, B)
        if l[0] == "pmem":
            t = self.fresh()
            B.append("let %s ← rd %s %s 1" % (t, self.rbytes(l[1]), l[2]))
            return t
        return ObjFn.load(self, l, B)

    def store(self, l, v, B, vt):
        if l[0] == "place":
            l[1].write(self, v, B)
            return
        if l[0] == "pmem":
            raise Untranslatable("store through a pointer into another object")
        return ObjFn.store(self, l, v, B, vt)

    # ------------------------------------------------------------------ regions / pointers with provenance
    def region_of(self, n):
        x = n
        while x.get("kind") in ("ParenExpr", "ImplicitCastExpr", "MaterializeTemporaryExpr", "ExprWithCleanups"):
            x = x["inner"][0]
        if x.get("kind") == "MemberExpr":
            b = self.strip(x["inner"][0])
            if not (b.get("kind") == "CXXThisExpr" and self.this_override is None):
                p = self.place(x, [])
                if p is not None and p.ty == ("bytes",) and p.pure() is not None:
                    return ("pl", p)
                return None
        return ObjFn.region_of(self, n)

    def rbytes(self, r):
        if r[0] == "pl":
            return r[1].pure()
        return ObjFn.rbytes(self, r)

    def rstore(self, r, v, B):
        if r[0] == "pl":
            r[1].write(self, v, B)
            return
        if self.const_this:
            raise Untranslatable("write to a member vector in a const method")
        return ObjFn.rstore(self, r, v, B)

    def pptr(self, n, B):
        x = n
        while (x.get("kind") in ("ParenExpr", "ImplicitCastExpr", "CXXReinterpretCastExpr", "CStyleCastExpr", "CXXStaticCastExpr") and x.get("castKind") in (None, "BitCast", "NoOp", "LValueToRValue")) \
                or x.get("kind") in ("MaterializeTemporaryExpr", "ExprWithCleanups", "CXXBindTemporaryExpr"):
            x = x["inner"][0]
        if x.get("kind") == "CXXMemberCallExpr" and len(x["inner"]) == 1:
            me = x["inner"][0]
            if me.get("kind") == "MemberExpr" and not me.get("isArrow") and me.get("name") != "data":
                p = self.place(me["inner"][0], B)
                if p is not None and p.ty[0] == "obj" and p.pure() is not None:
                    # a method of another object whose body is `return <pointer expression>;`: followed with `this` = that object
                    try:
                        d = self.T.definition(me["referencedMemberDecl"])
                    except Untranslatable:
                        d = None
                    body = TU.body_of(d).get("inner", []) if d is not None else []
                    if len(body) == 1 and body[0].get("kind") == "ReturnStmt" and body[0].get("inner"):
                        old = self.this_override
                        self.this_override = p
                        try:
                            return self.pptr(body[0]["inner"][0], B)
                        finally:
                            self.this_override = old
        return ObjFn.pptr(self, n, B)

    # ------------------------------------------------------------------ values of class type
    def val(self, n, B):
        """Lean term for an expression whose type is a flat class / record class / unique_ptr / wire record by value"""
        x = self.strip(n)
        k = x.get("kind")
        if k == "ImplicitCastExpr" and x.get("castKind") == "LValueToRValue":
            return self.val(x["inner"][0], B)
        if k in ("CXXConstructExpr", "CXXTemporaryObjectExpr"):
            return self.construct(x, B)
        if k == "CXXFunctionalCastExpr" and x.get("inner"):
            return self.val(x["inner"][0], B)
        if k == "InitListExpr" and len(x.get("inner", [])) == 1:
            return self.val(x["inner"][0], B)
        if k == "CallExpr" and self.strip_casts(x["inner"][0]).get("referencedDecl", {}).get("name") == "make_unique" \
                and self.strip_casts(x["inner"][0])["referencedDecl"].get("id") not in self.tu.nodes:
            return self.make_unique(x, B)
        if k == "CallExpr" and len(x["inner"]) == 2 and self.is_std_move(x):
            pvx = self.pvty(x)
            if pvx is not None and pvx[0] == "uptr":
                return self.moved_uptr(x, B)
            raise Untranslatable("std::move of an object used as a value")
        if k in ("CallExpr", "CXXMemberCallExpr") or (k == "CXXOperatorCallExpr" and self.strip_casts(x["inner"][0]).get("referencedDecl", {}).get("name") not in ("operator*", "operator->")):
            did = self.callee_decl(x)
            if did is not None and self.PT.is_pv_decl(did):
                r = self.call_pv(x, B)
                if r is None:
                    raise Untranslatable("void call used as a value")
                return r
            raise Untranslatable("call returning a class value outside the value mode")
        p = self.place(x, B)
        if p is not None:
            return p.read(self, B)
        raise Untranslatable("class-typed expression " + str(k))

    def find_ctor(self, cls, ctor_type):
        """(declaration, defining node or None) of the constructor of `cls` with the given type string"""
        found = [c for c in cls.rec.get("inner", []) if c.get("kind") == "CXXConstructorDecl" and c.get("type", {}).get("qualType") == ctor_type]
        if len(found) != 1:
            raise Untranslatable("constructor %s of %s not found" % (ctor_type, cls.qual))
        c = found[0]
        d = self.tu.bodies.get(c["id"])
        return c, d

    @staticmethod
    def ctor_params(c):
        return [p for p in c.get("inner", []) if p.get("kind") == "ParmVarDecl"]

    def is_copy_or_move(self, cls, c):
        ps = self.ctor_params(c)
        if len(ps) != 1:
            return None
        q = ps[0].get("type", {}).get("qualType", "").strip()
        pv = self.PT.pvtype(ps[0].get("type"))
        if pv is None or pv[0] not in ("obj", "flat") or pv[1] is not cls:
            return None
        if q.endswith("&&"):
            return "move"
        if q.endswith("&") and q.startswith("const"):
            return "copy"
        return None

    def construct(self, x, B):
        pv = self.pvty(x)
        args = [a for a in x.get("inner", []) if a.get("kind") != "CXXDefaultArgExpr"]
        ct = x.get("ctorType", {}).get("qualType", "")
        if pv is None:
            raise Untranslatable("construction of " + x.get("type", {}).get("qualType", "?"))
        if pv[0] == "uptr":
            if not args:
                return "none"                                     # a null pointer
            if len(args) == 1 and len(x.get("inner", [])) == 1:
                a = args[0]
                apv = self.pvty(a)
                if apv is not None and apv[0] == "uptr" and a.get("kind") == "MaterializeTemporaryExpr":
                    return self.val(a, B)                         # ownership taken over from a temporary (also unique_ptr<Derived>)
                sa = self.strip(a)
                if apv is not None and apv[0] == "uptr" and sa.get("kind") == "CallExpr" and len(sa["inner"]) == 2 and self.is_std_move(sa):
                    return self.moved_uptr(sa, B)                 # … from std::move(place): the place is left null
            raise Untranslatable("unique_ptr constructor " + ct)
        if pv[0] == "wrec":
            # a trivially copyable wire record copied out of the memory: its bytes
            if len(args) == 1 and pv[1] in self.T.layout.default:       # reflected: default-constructible, trivially copyable and destructible
                a = self.strip(args[0])
                if a.get("kind") == "UnaryOperator" and a.get("opcode") == "*":
                    addr = self.ex(a["inner"][0], B)
                    self.fn.uses_mem = True
                    t = self.fresh()
                    B.append("let %s ← takeExact (m.drop %s) %d" % (t, addr, self.T.layout.size[pv[1]]))
                    return t
            raise Untranslatable("wire record construction " + ct)
        cls = pv[1]
        c, d = self.find_ctor(cls, ct)
        cm = self.is_copy_or_move(cls, c)
        if cls.kind == "flat" and cm is not None and c.get("isImplicit"):
            if len(args) != 1:
                raise Untranslatable("copy of a flat object")
            return self.val(args[0], B)                           # implicit copy / move of a single-scalar class: the value
        if cm == "move" and (c.get("isImplicit") or c.get("explicitlyDefaulted") or d is None):
            raise Untranslatable("defaulted move construction of " + cls.qual)
        if d is None:
            raise Untranslatable("constructor %s of %s has no body" % (ct, cls.qual))
        return self.call_ctor(d, args, B)

    def call_ctor(self, d, args, B):
        g = self.PT.translate(d)
        argv, ios = self.args_for(g, args, B)
        self.absorb(g)
        t = self.fresh("o")
        ionames = [self.fresh("o") for _ in ios]
        pat = t if not ios else "(%s)" % ", ".join([t] + ionames)
        B.append("let %s ← %s" % (pat, self.call_text(g, None, argv)))
        for p, nm in zip(ios, ionames):
            p.write(self, nm, B)
        return t

    def make_unique(self, x, B):
        pv = self.pvty(x)
        if pv is None or pv[0] != "uptr":
            raise Untranslatable("make_unique of " + x.get("type", {}).get("qualType", "?"))
        cls = pv[1]
        args = x["inner"][1:]
        # overload resolution of `new T(std::forward<Args>(args)...)` (the instantiation of make_unique is not part of the dump):
        # by arity and by the kind of every argument; exactly one candidate must remain
        cands = []
        for c in cls.rec.get("inner", []):
            if c.get("kind") != "CXXConstructorDecl":
                continue
            ps = self.ctor_params(c)
            if len(ps) != len(args):
                continue
            conv = []
            ok = True
            for p, a in zip(ps, args):
                ppv = self.PT.pvtype(p.get("type"))
                apv = self.pvty(a)
                pq = p.get("type", {}).get("qualType", "").strip()
                if ppv is not None and ppv[0] == "obj":
                    if apv is None or apv[0] != "obj" or apv[1].root is not ppv[1].root:
                        ok = False
                    elif pq.endswith("&&"):
                        ok = ok and a.get("valueCategory") in ("xvalue", "prvalue")
                    else:
                        ok = ok and pq.endswith("&") and pq.startswith("const") and a.get("valueCategory") == "lvalue"
                    conv.append("obj")
                elif ppv is not None and ppv[0] == "flat":
                    if apv is not None and apv[0] == "flat" and apv[1] is ppv[1]:
                        conv.append("flat")
                    elif apv is None and self.scalar_kind(a) == "i":
                        conv.append(("convert", ppv[1]))
                    else:
                        ok = False
                elif ppv is not None:
                    ok = False
                else:
                    try:
                        pk = self.T.ctype(p.get("type"))[0]
                    except Untranslatable:
                        ok = False
                        continue
                    ak = self.scalar_kind(a)
                    if ak is None or (pk == "p") != (ak == "p"):
                        ok = False
                    conv.append("scalar")
            if ok:
                cands.append((c, conv))
        if len(cands) != 1:
            raise Untranslatable("make_unique<%s>: %d candidate constructors" % (cls.qual, len(cands)))
        c, conv = cands[0]
        if self.is_copy_or_move(cls, c) == "move":
            raise Untranslatable("make_unique moving from an object")
        d = self.tu.bodies.get(c["id"])
        if d is None:
            raise Untranslatable("constructor of %s has no body" % cls.qual)
        g = self.PT.translate(d)
        argv = []
        for (pn, pt, mode), a, cv in zip(g.params, args, conv):
            if mode == "inout":
                raise Untranslatable("make_unique with a reference parameter")
            if cv in ("obj", "flat"):
                argv.append(self.val(a, B))
            elif isinstance(cv, tuple):
                argv.append(self.convert_to_flat(cv[1], a, B))
            else:
                v = self.ex(a, B)
                at = self.ty(a)
                if at != pt and at[0] in ("i", "b") and pt[0] in ("i", "b"):
                    v = self.cast(v, at, pt)
                argv.append(v)
        self.absorb(g)
        t = self.fresh("o")
        B.append("let %s ← %s" % (t, self.call_text(g, None, argv)))
        return "(some %s)" % t

    def enum_const(self, a):
        """value of an expression that is just an enumerator (also of an unnamed enum), or None"""
        x = self.strip(a)
        while x.get("kind") in ("ImplicitCastExpr", "ConstantExpr") and x.get("inner"):
            x = x["inner"][0]
        if x.get("kind") == "DeclRefExpr" and x.get("referencedDecl", {}).get("kind") == "EnumConstantDecl":
            return self.enum_value(self.tu.decl(x["referencedDecl"]["id"]))
        return None

    def scalar_kind(self, a):
        if self.enum_const(a) is not None:
            return "i"
        try:
            return self.ty(a)[0]
        except Untranslatable:
            return None

    def convert_to_flat(self, cls, a, B):
        """implicit conversion of an integer / enumerator to a flat class through its unique converting constructor"""
        cs = [c for c in cls.rec.get("inner", []) if c.get("kind") == "CXXConstructorDecl" and len(self.ctor_params(c)) == 1
              and self.is_copy_or_move(cls, c) is None and not c.get("explicit")]
        if len(cs) != 1:
            raise Untranslatable("conversion to %s is ambiguous" % cls.qual)
        d = self.tu.bodies.get(cs[0]["id"])
        if d is None:
            raise Untranslatable("converting constructor without body")
        g = self.PT.translate(d)
        pt = g.params[0][1]
        ev = self.enum_const(a)
        if pt[0] != "i":
            raise Untranslatable("conversion to %s from a non-integer" % cls.qual)
        if ev is not None:
            v = str(ev % 2 ** pt[1])
        else:
            at = self.ty(a)
            if at[0] != "i":
                raise Untranslatable("conversion to %s from a non-integer" % cls.qual)
            v = self.cast(self.ex(a, B), at, pt)
        self.absorb(g)
        t = self.fresh("o")
        B.append("let %s ← %s" % (t, self.call_text(g, None, [v])))
        return t

    # ------------------------------------------------------------------ calls of value-mode functions
    def absorb(self, g):
        if g.uses_mem:
            self.fn.uses_mem = True
        if g.has_fuel:
            self.has_fuel = True
        for p in g.gparams:
            if p not in self.gparams:
                self.gparams.append(p)

    def call_text(self, g, thisv, argv):
        parts = [g.lean]
        if g.has_fuel:
            parts.append("fuel")
        parts += g.gparams
        if thisv is not None:
            parts.append(thisv)
        if g.uses_mem:
            parts.append("m")
        parts += argv
        return " ".join(parts)

    def args_for(self, g, args, B, dropped=None):
        args = [a for a in args if a.get("kind") != "CXXDefaultArgExpr"]
        if dropped is not None:
            args = [a for i, a in enumerate(args) if i != dropped]
        if len(args) != len(g.params):
            raise Untranslatable("argument count")
        argv, ios = [], []
        for (pn, pt, mode), a in zip(g.params, args):
            if mode == "inout":
                p = self.place(a, B)
                if p is None or p.const or p.ty[0] != "obj":
                    raise Untranslatable("argument for a reference parameter")
                argv.append(p.read(self, B))
                ios.append(p)
            elif pt[0] in ("obj", "flat", "uptr", "wrec"):
                apv = self.pvty(a)
                if apv is None and pt[0] == "flat":
                    argv.append(self.convert_to_flat(pt[1], a, B))
                else:
                    argv.append(self.val(a, B))
            else:
                argv.append(self.ex(a, B))
        return argv, ios

    def call_pv(self, n, B):
        """call of a value-mode function; returns the Lean term of its value or None"""
        k = n.get("kind")
        did = self.callee_decl(n)
        d = self.T.definition(did)
        thisp = None
        if k == "CXXMemberCallExpr":
            me = n["inner"][0]
            while me.get("kind") in ("ParenExpr", "ImplicitCastExpr"):
                me = me["inner"][0]
            args = n["inner"][1:]
            g = self.PT.translate(d)
            if g.kind == "method":
                b = self.strip(me["inner"][0])
                if me.get("isArrow") and b.get("kind") == "CXXThisExpr":
                    thisp = self.this_place()
                elif me.get("isArrow"):
                    x = b
                    while x.get("kind") == "ImplicitCastExpr" and x.get("castKind") in ("NoOp", "LValueToRValue"):
                        x = x["inner"][0]
                    thisp = self.place(x, B) if x.get("kind") == "CXXOperatorCallExpr" else None
                else:
                    thisp = self.place(b, B)
                    if thisp is None and self.pvty(b) is not None and b.get("valueCategory") == "prvalue":
                        thisp = Place("var", self.pvty(b)[:2], name=self.val(b, B), const=True)      # a temporary
                if thisp is None:
                    raise Untranslatable("object of a method call")
        else:
            args = n["inner"][1:]
            g = self.PT.translate(d)
            if g.kind == "method":
                # `a = b` / `a == b` as a member operator: the first argument is the object
                thisp = self.place(args[0], B)
                args = args[1:]
                if thisp is None:
                    raise Untranslatable("object of a member operator")
        g, dropped = self.aliasing_variant(d, g, thisp, args, B)
        argv, ios = self.args_for(g, args, B, dropped)
        thisv = None
        if g.kind == "method":
            if thisp.ty[0] not in ("obj", "flat") or (thisp.ty[1].root if thisp.ty[0] == "obj" else thisp.ty[1]) is not (g.cls.root if g.cls.kind != "flat" else g.cls):
                raise Untranslatable("object class of a method call")
            thisv = thisp.read(self, B)
        self.absorb(g)
        comps = []
        if g.kind == "method":
            comps.append("_" if (g.const or thisp.const) else self.fresh("o"))
            if thisp.const and not g.const:
                raise Untranslatable("non-const method on a const object")
        r = None
        if g.has_value:
            r = self.fresh()
            comps.append(r)
        elif g.kind == "method":
            comps.append("_")
        ionames = [self.fresh("o") for _ in ios]
        comps += ionames
        pat = comps[0] if len(comps) == 1 else "(" + ", ".join(comps) + ")"
        if not comps:
            pat = "_"
        B.append("let %s ← %s" % (pat, self.call_text(g, thisv, argv)))
        if g.kind == "method" and comps[0] != "_":
            thisp.write(self, comps[0], B)
        for p, nm in zip(ios, ionames):
            p.write(self, nm, B)
        return r

    def aliasing_variant(self, d, g, thisp, args, B):
        """(function to call, index of the dropped argument or None): if a mutated object argument of the call (`this` of a non-const
        method, an argument for a non-const reference parameter) is the same place as another object reference argument, the
        callee's `_self` / `_same` variant is called; a partial overlap cannot be expressed"""
        args = [a for a in args if a.get("kind") != "CXXDefaultArgExpr"]
        if len(args) != len(g.params):
            raise Untranslatable("argument count")
        refs = []       # (position, place key, mutated)
        if g.kind == "method" and thisp is not None and g.cls.kind != "flat":
            refs.append(("this", thisp.key(), not g.const))
        for i, ((pn, pt, mode), isref, a) in enumerate(zip(g.params, g.param_ref, args)):
            if pt[0] == "obj" and isref:
                pl = self.place(a, [])
                if pl is not None:
                    refs.append((i, pl.key(), mode == "inout"))
                elif mode == "inout":
                    raise Untranslatable("argument for a reference parameter")
        pairs = []
        for x in range(len(refs)):
            for y in range(x + 1, len(refs)):
                (px, kx, mx), (py, ky, my) = refs[x], refs[y]
                if not (mx or my):
                    continue                    # both only read: the values at the call are exact
                n_ = min(len(kx), len(ky))
                if kx[:n_] != ky[:n_]:
                    continue                    # different objects
                if kx != ky:
                    raise Untranslatable("an argument of the call is a sub-object of another, mutated argument")
                pairs.append((px, py, mx and my))
        if not pairs:
            return g, None
        if len(pairs) > 1:
            raise Untranslatable("more than two arguments of the call are the same object")
        px, py, both = pairs[0]
        if px == "this":
            g2 = self.PT.translate(d, alias="self")
            if g2.alias_index != py:
                raise Untranslatable("the argument that is *this is not the parameter of the `_self` variant")
            return g2, py
        if not both:
            raise Untranslatable("a const reference argument is the same object as a mutated reference argument")
        g2 = self.PT.translate(d, alias="same")
        if g2.same_pair != (px, py):
            raise Untranslatable("the two arguments that are one object are not the pair of the `_same` variant")
        return g2, py

    def call(self, n, B, want_value):
        did = self.callee_decl(n)
        if did is not None and self.PT.is_pv_decl(did):
            return self.call_pv(n, B)
        if n.get("kind") == "CXXMemberCallExpr":
            me = n["inner"][0]
            while me.get("kind") in ("ParenExpr", "ImplicitCastExpr"):
                me = me["inner"][0]
            b = self.strip(me["inner"][0]) if me.get("kind") == "MemberExpr" else {}
            if b.get("kind") == "CXXThisExpr":
                raise Untranslatable("method of the same object outside the value mode")     # never an opaque input here
        return ObjFn.call(self, n, B, want_value)

    # ------------------------------------------------------------------ expressions
    def uptr_test(self, n, B):
        """`p.get()` / `p.operator bool()` of a unique_ptr place as a Bool, or None"""
        x = self.strip(n)
        if x.get("kind") == "CXXMemberCallExpr" and len(x["inner"]) == 1:
            me = x["inner"][0]
            if me.get("kind") == "MemberExpr" and me.get("name") in ("get", "operator bool"):
                p = self.place(me["inner"][0], B)
                if p is not None and p.ty[0] == "uptr":
                    return "(%s).isSome" % p.read(self, B)
        return None

    def ex(self, n, B):
        k = n.get("kind")
        if k in ("ImplicitCastExpr",) and n.get("castKind") in ("PointerToBoolean", "UserDefinedConversion"):
            r = self.uptr_test(n["inner"][0], B)
            if r is not None:
                return r
            raise Untranslatable("conversion to bool of " + str(n["inner"][0].get("kind")))
        pv = self.pvty(n) if k not in ("IntegerLiteral", "CXXBoolLiteralExpr") else None
        if pv is not None:
            return self.val(n, B)
        if k in ("ImplicitCastExpr", "CXXStaticCastExpr") and n.get("castKind") == "IntegralCast" and self.enum_const(n["inner"][0]) is not None:
            return self.lit(self.enum_const(n["inner"][0]), self.ty(n))        # an enumerator of an unnamed enum
        if k == "BinaryOperator" and n.get("opcode") in ("==", "!="):
            a, b = n["inner"]
            sa, sb = self.strip(a), self.strip(b)
            ta = a.get("type", {}).get("qualType", "")
            tb = b.get("type", {}).get("qualType", "")
            if ta.rstrip().endswith("*") and tb.rstrip().endswith("*"):
                # this == &parameter
                for u, v in ((sa, sb), (sb, sa)):
                    if u.get("kind") == "CXXThisExpr" and v.get("kind") == "UnaryOperator" and v.get("opcode") == "&":
                        t = self.strip(v["inner"][0])
                        if t.get("kind") == "DeclRefExpr" and (t["referencedDecl"]["id"] in self.objs or t["referencedDecl"]["id"] == self.alias_of):
                            self.addr_cmp = True
                            if self.alias_of is None:
                                self.alias_of = t["referencedDecl"]["id"]
                            elif self.alias_of != t["referencedDecl"]["id"]:
                                raise Untranslatable("`this` compared with two different parameters")
                            return "g_sameObject" if n["opcode"] == "==" else "(!g_sameObject)"
                # two pointers into the byte vectors of objects
                Ba, Bb = [], []
                pa, pb = self.pptr(a, Ba), self.pptr(b, Bb)
                if pa is not None and pb is not None and not Ba and not Bb:
                    if getattr(self, "_sameptr_used", False):
                        raise Untranslatable("more than one undecidable pointer comparison")
                    self._sameptr_used = True
                    if "g_samePtr" not in self.gparams:
                        self.gparams.append("g_samePtr")
                    return "g_samePtr" if n["opcode"] == "==" else "(!g_samePtr)"
        if k == "CXXOperatorCallExpr":
            did = self.callee_decl(n)
            if did is not None and self.PT.is_pv_decl(did):
                r = self.call_pv(n, B)
                if r is None:
                    raise Untranslatable("void operator used as a value")
                return r
        if k == "CXXMemberCallExpr":
            did = self.callee_decl(n)
            if did is not None and self.PT.is_pv_decl(did):
                r = self.call_pv(n, B)
                if r is None:
                    raise Untranslatable("void call used as a value")
                return r
            me = n["inner"][0]
            if me.get("kind") == "MemberExpr" and len(n["inner"]) == 1 and me.get("name") in ("size", "empty"):
                p = self.place(me["inner"][0], B)
                if p is not None and p.ty == ("bytes",):
                    v = p.read(self, B)
                    return "(%s).length" % v if me["name"] == "size" else "(%s).isEmpty" % v
        if k == "CallExpr":
            did = self.callee_decl(n)
            if did is not None and self.PT.is_pv_decl(did):
                r = self.call_pv(n, B)
                if r is None:
                    raise Untranslatable("void call used as a value")
                return r
        if k == "MemberExpr" or (k == "DeclRefExpr" and n["referencedDecl"]["id"] in self.objs):
            p = self.place(n, B)
            if p is not None and p.ty[0] in ("i", "b"):
                return p.read(self, B)
        return ObjFn.ex(self, n, B)

    # ------------------------------------------------------------------ effects
    def effect(self, s, B):
        k = s.get("kind")
        if k in ("ExprWithCleanups", "ParenExpr"):
            return self.effect(s["inner"][0], B)
        if k == "CXXOperatorCallExpr" and self.strip_casts(s["inner"][0]).get("referencedDecl", {}).get("name") == "operator=" and len(s["inner"]) == 3:
            lhs, rhs = s["inner"][1], s["inner"][2]
            p = self.place(lhs, B)
            if p is not None and p.ty[0] in ("uptr", "flat"):
                did = self.callee_decl(s)
                dn = self.tu.decl(did) if did in self.tu.nodes else {}
                if p.ty[0] == "flat" and not dn.get("isImplicit"):
                    raise Untranslatable("user-defined assignment of a flat class")
                if p.ty[0] == "uptr":
                    r = self.strip(rhs)
                    if rhs.get("kind") != "MaterializeTemporaryExpr" and r.get("kind") not in ("CallExpr", "CXXMemberCallExpr"):
                        raise Untranslatable("unique_ptr assigned from something that is not a temporary")
                v = self.val(rhs, B)
                p.write(self, v, B)                 # the object owned before is destroyed: not observable
                return
            if p is not None and p.ty[0] == "obj":
                did = self.callee_decl(s)
                if did is not None and self.PT.is_pv_decl(did):
                    self.call_pv(s, B)
                    return
            raise Untranslatable("assignment operator on " + str(self.strip(lhs).get("kind")))
        if k == "CXXMemberCallExpr" and s["inner"][0].get("kind") == "MemberExpr" and s["inner"][0].get("name") == "reset" \
                and all(a.get("kind") == "CXXDefaultArgExpr" for a in s["inner"][1:]):
            p = self.place(s["inner"][0]["inner"][0], B)
            if p is not None and p.ty[0] == "uptr":
                p.write(self, "none", B)            # the owned object is destroyed: not observable
                return
        if k == "CallExpr":
            c = self.strip_casts(s["inner"][0])
            rd = c.get("referencedDecl", {})
            if rd.get("name") == "swap" and rd.get("id") not in self.tu.nodes and len(s["inner"]) == 3:
                # std::swap on two scalars / two unique_ptrs: the values change places
                a, b = s["inner"][1], s["inner"][2]
                pa, pb = self.place(a, B), self.place(b, B)
                if pa is None or pb is None or pa.ty != pb.ty or pa.ty[0] not in ("i", "b", "uptr", "flat"):
                    raise Untranslatable("std::swap outside the supported shapes")
                ta, tb = self.fresh(), self.fresh()
                B.append("let %s := %s" % (ta, pa.read(self, B)))
                B.append("let %s := %s" % (tb, pb.read(self, B)))
                pa.write(self, tb, B)
                pb.write(self, ta, B)
                return
        if k in ("CallExpr", "CXXMemberCallExpr", "CXXOperatorCallExpr"):
            did = self.callee_decl(s)
            if did is not None and self.PT.is_pv_decl(did):
                self.call_pv(s, B)
                return
        if k == "CXXOperatorCallExpr":
            raise Untranslatable("overloaded operator")
        return ObjFn.effect(self, s, B)

    # ------------------------------------------------------------------ results
    def result(self, val):
        comps = []
        if self.has_s:
            comps.append("s")
        if val is not None:
            comps.append(val)
        elif self.has_s and not self.is_ctor:
            comps.append(self.void_result())
        comps += [nm for nm, _ in self.inout]
        if not comps:
            return "()"
        return comps[0] if len(comps) == 1 else "(" + ", ".join(comps) + ")"

    def result_type(self):
        comps = []
        if self.has_s:
            comps.append(self.pcls.ltype())
        if self.ret_lty is not None:
            comps.append(self.ret_lty)
        elif self.has_s and not self.is_ctor:
            comps.append("Bytes" if self.outbuf is not None else "Unit")
        comps += [ty for _, ty in self.inout]
        if not comps:
            return "Unit"
        return " × ".join(comps)

    def emit_return(self, val, ind):
        pad = "  " * ind
        if self.loop_ret:
            return pad + "pure " + self.loop_ret[-1]("(some %s)" % (val if val is not None else "()"))
        return pad + "pure " + self.result(val)

    def fall_off(self, ind):
        if self.ret_lty is None:
            return self.emit_return(None, ind)
        return "  " * ind + "none"

    def ret_code(self, val, ind):
        return self.emit_return(None, ind)

    def ret_code_v(self, v, ind):
        return self.emit_return(v, ind)

    # ------------------------------------------------------------------ statements
    def stmt(self, s, k, ind):
        kind = s.get("kind")
        pad = "  " * ind
        if kind == "DeclStmt":
            ds = s.get("inner", [])
            if all(d.get("kind") == "UsingDecl" for d in ds):
                return k(ind)                       # `using std::swap;`
            if len(ds) == 1 and ds[0].get("kind") == "VarDecl":
                d = ds[0]
                pv = self.PT.pvtype(d.get("type"))
                init = [c for c in d.get("inner", []) if c.get("kind") not in ("FullComment",)]
                if pv is not None and pv[0] != "wrec":
                    q = d.get("type", {}).get("qualType", "").strip()
                    if q.endswith("&") or not init:
                        raise Untranslatable("local reference / uninitialised local object")
                    B = []
                    v = self.val(init[0], B)
                    nm = self.vname(d["name"])
                    B.append("let %s := %s" % (nm, v))
                    self.objs[d["id"]] = Place("var", pv[:2], name=nm, const=q.startswith("const"))
                    self.local_ty[nm] = self.PT.ltype_of(pv)
                    return self.with_binds(B, k(ind), ind)
        if kind == "IfStmt":
            return FnTr.stmt(self, s, k, ind)         # the continuation is emitted in both branches (no join: objects may change)
        if kind == "ForStmt":
            init, _cv, cond, inc, body = (s["inner"] + [None] * 5)[:5]
            if _cv or cond is None:
                raise Untranslatable("for statement shape")
            if init is None or init.get("kind") is None:
                return self.gen_loop(cond, body, inc, k, ind)
            return self.stmt(init, lambda i2: self.gen_loop(cond, body, inc, k, i2), ind)
        if kind == "WhileStmt":
            return self.gen_loop(s["inner"][0], s["inner"][1], None, k, ind)
        if kind == "ReturnStmt" and s.get("inner"):
            if self.ret_self:
                x = self.strip(s["inner"][0])
                if x.get("kind") == "UnaryOperator" and x.get("opcode") == "*" and self.strip(x["inner"][0]).get("kind") == "CXXThisExpr":
                    return self.emit_return(None, ind)
                raise Untranslatable("a function returning a reference to its class returns something else than *this")
            B = []
            v = self.ex(s["inner"][0], B)
            return self.with_binds(B, self.emit_return(v, ind), ind)
        if kind == "ReturnStmt":
            return self.emit_return(None, ind)
        if kind in ("DoStmt", "CXXForRangeStmt", "CXXTryStmt", "ContinueStmt", "GotoStmt"):
            raise Untranslatable(kind)
        return ObjFn.stmt(self, s, k, ind)

    def gen_loop(self, cond, body, inc, k, ind):
        if self.contains(body, ("ContinueStmt", "GotoStmt")):
            raise Untranslatable("continue inside a loop")
        self.has_fuel = True
        self.nloops += 1
        name = "%s_loop%d" % (self.fn.lean, self.nloops)
        has_ret = self.contains(body, ("ReturnStmt",))
        live = [(nm, ty) for nm, ty in self.local_ty.items() if nm not in self.gparams]
        did_of = {v: kk for kk, v in self.locals.items()}
        mut_objs = set(p.name for p in self.objs.values() if p.kind == "var" and not p.const)
        assigned = [nm for nm, _ in live if (nm in did_of and (self.assigns(body, did_of[nm]) or (inc is not None and self.assigns(inc, did_of[nm])))) or nm in mut_objs]
        carried = (["s"] if self.has_s else []) + assigned
        carried_ty = ([self.pcls.ltype()] if self.has_s else []) + [dict(live)[a] for a in assigned]

        def tup(first):
            comps = ([first] if has_ret else []) + carried
            if not comps:
                return "()"
            return comps[0] if len(comps) == 1 else "(" + ", ".join(comps) + ")"
        ret_ty = " × ".join((["Option %s" % (self.ret_lty or "Unit")] if has_ret else []) + carried_ty) or "Unit"
        B = []
        c = self.cond(cond, B)
        saved = (dict(self.local_ty), dict(self.locals), dict(self.objs), dict(self.prov))
        self.loop_ret.append(tup)
        self.break_k.append(lambda i2: "  " * i2 + "pure " + tup("none"))

        def again(i2):
            B2 = []
            if inc is not None:
                self.effect(inc, B2)
            return self.with_binds(B2, "  " * i2 + "%s fuel ⟪G⟫⟪S⟫⟪M⟫%s" % (name, " ".join(nm for nm, _ in live)), i2)
        body_code = self.stmt(body, again, 3)
        self.break_k.pop()
        self.loop_ret.pop()
        self.local_ty, self.locals, self.objs, self.prov = saved
        g = "".join(p + " " for p in self.gparams)
        sarg = "s " if self.has_s else ""
        mem = "m " if self.fn.uses_mem else ""
        body_code = body_code.replace("⟪G⟫", g).replace("⟪S⟫", sarg).replace("⟪M⟫", mem)
        params = "".join("(%s : Bool) " % p for p in self.gparams) + ("(s : %s) " % self.pcls.ltype() if self.has_s else "") + \
            ("(m : Bytes) " if self.fn.uses_mem else "") + " ".join("(%s : %s)" % (nm, ty) for nm, ty in live)
        code = ["def %s (fuel : Nat) %s : Option (%s) :=" % (name, params, ret_ty), "  match fuel with", "  | 0 => none", "  | fuel + 1 => do"]
        code += ["    " + b for b in B]
        code.append("    if %s then" % c)
        code.append(body_code)
        code.append("    else")
        code.append("      pure " + tup("none"))
        self.aux.append("\n".join(code) + "\n")
        pad = "  " * ind
        call = "%s fuel %s%s%s%s" % (name, g, sarg, mem, " ".join(nm for nm, _ in live))
        if not has_ret:
            return pad + "let %s ← %s\n" % (tup(None), call) + k(ind)
        out = pad + "let %s ← %s\n" % (tup("r_"), call)
        out += pad + "match r_ with\n"
        out += pad + "| some r_ => pure %s\n" % self.result("r_" if self.ret_lty is not None else None)
        out += pad + "| none =>\n" + k(ind + 1)
        return out

    # ------------------------------------------------------------------ entry
    def sig_suffix(self, ps):
        out = []
        for c in ps:
            pv = self.PT.pvtype(c.get("type"))
            if pv is not None:
                out.append(pv[1].name if pv[0] != "wrec" else self.T.ident(pv[1]))
            else:
                t = self.T.ctype(c.get("type"))
                out.append(self.T.suffix(t))
        return "_".join(out)

    def run_pv(self):
        n = self.node
        PT, T = self.PT, self.T
        f = self.fn
        f.qual = self.tu.qualname(n)
        f.node = n
        qt = n.get("type", {}).get("qualType", "")
        ctx = self.tu.context(n)
        cq = self.tu.qualname(ctx) if ctx is not None and ctx.get("kind") == "CXXRecordDecl" else None
        pcls = PT.cls_by_qual(cq) if cq else None
        static = n.get("storageClass") == "static" or any(c.get("storageClass") == "static" for c in self.tu.nodes.get(n.get("previousDecl") or "", []))
        ps = [c for c in n.get("inner", []) if c.get("kind") == "ParmVarDecl"]
        info = PvFnInfo()
        if n["kind"] == "CXXConstructorDecl":
            info.kind = "ctor"
            self.is_ctor = True
            self.has_s = True
            self.pcls = pcls
        elif n["kind"] == "CXXMethodDecl" and not static:
            info.kind = "method"
            self.has_s = True
            self.pcls = pcls
        else:
            info.kind = "free"
        if info.kind != "free" and pcls is None:
            raise Untranslatable("method of a class outside the value mode")
        self.cls = self.pcls.root if self.pcls is not None and self.pcls.kind != "flat" else (self.pcls or PT.dummy)
        info.cls = self.pcls
        info.const = info.kind == "method" and qt.rstrip().endswith("const")
        self.const_this = info.const
        # ---- name
        base = n.get("name", "f")
        opname = PV_OPNAMES.get(base)
        if base.startswith("operator") and opname is None:
            raise Untranslatable("operator " + base)
        if info.kind == "ctor":
            cm = self.is_copy_or_move(pcls, n)
            lean = "%s_ctor_%s" % (pcls.name, cm or (self.sig_suffix(ps) if ps else "default"))
        elif info.kind == "method":
            lean = "%s_%s" % (pcls.name, opname or base)
            if opname == "opAssign":
                q0 = ps[0].get("type", {}).get("qualType", "").strip() if ps else ""
                lean += "_move" if q0.endswith("&&") else "_copy"
            elif PT.overloads(n) > 1 and not info.const:
                lean += "_mut"
        else:
            owner = (pcls.name + "_") if pcls is not None else ""
            lean = owner + (opname or base)
            if pcls is None:
                lean += "_" + self.sig_suffix(ps[:1])
        if self.alias:
            lean += "_" + self.alias
        if PT.names.get(lean + "_pv", id(n)) != id(n) and ps:
            lean += "_" + self.sig_suffix(ps)
        if PT.names.get(lean + "_pv", id(n)) != id(n):
            raise Untranslatable("two functions would get the Lean name %s_pv" % lean)
        PT.names[lean + "_pv"] = id(n)
        f.lean = lean + "_pv"
        # ---- return type
        rts = qt.split("(")[0].strip()
        self.ret_lty = None
        info.has_value = False
        f.ret = ("v",)
        if info.kind == "ctor":
            pass
        else:
            rpv = PT.pvtype_s(rts)
            if rpv is not None:
                if rts.endswith("&") and not rts.startswith("const"):
                    if info.kind == "method" and rpv[0] == "obj" and rpv[1] is pcls:
                        self.ret_self = True          # `return *this;`
                    else:
                        raise Untranslatable("returns a mutable reference into the object")
                else:
                    self.ret_lty = PT.ltype_of(rpv)
                    f.ret = rpv
                    info.has_value = True
            else:
                f.ret = T.ctype_s(rts)
                if f.ret[0] == "p":
                    raise Untranslatable("returns a pointer (used through its provenance at the call sites)")
                if f.ret[0] not in ("v", "i", "b"):
                    raise Untranslatable("return type " + rts)
                if f.ret[0] != "v":
                    self.ret_lty = "Bool" if f.ret[0] == "b" else "Nat"
                    info.has_value = True
        # ---- parameters
        info.params = []
        info.param_ref = []
        info.alias_index = None
        info.same_pair = None
        body = TU.body_of(n)
        alias_i = PT.alias_param.get(id(n)) if self.alias == "self" else None
        same_ij = PT.same_param.get(id(n)) if self.alias == "same" else None
        if self.alias == "self" and (alias_i is None or info.kind != "method"):
            raise Untranslatable("no reference parameter that could be *this")
        if self.alias == "same" and (same_ij is None or info.kind == "method"):
            raise Untranslatable("no two reference parameters of one class")
        same_place = None
        for i, c in enumerate(ps):
            q = c.get("type", {}).get("qualType", "").strip()
            pv = PT.pvtype(c.get("type"))
            nm = self.vname(c.get("name") or "anon%d" % (i + 1), "a_")
            if pv is not None and pv[0] == "wrec":
                if q.endswith("&") or q.endswith("*"):
                    raise Untranslatable("wire record by reference")
                self.locrec[c["id"]] = (nm, pv[1])
                self.local_ty[nm] = "Bytes"
                info.params.append((nm, pv, "val"))
                info.param_ref.append(False)
                continue
            if pv is not None:
                isref = q.endswith("&")
                const = q.startswith("const")
                if pv[0] == "uptr" and isref:
                    raise Untranslatable("unique_ptr by reference")
                if alias_i == i:
                    if not (pv[0] == "obj" and isref and pv[1].root is pcls.root):
                        raise Untranslatable("the parameter that is *this is not a reference to the class")
                    self.alias_of = c["id"]       # this parameter IS *this: no Lean parameter
                    self.alias_const = const
                    info.alias_index = i
                    continue
                if same_ij is not None and i in same_ij:
                    if not (pv[0] == "obj" and isref and not const):
                        raise Untranslatable("the parameters that are one object are not non-const references")
                    if same_place is None:
                        # both parameters are the one object `s`
                        same_place = Place("var", pv[:2], name="s", const=False)
                        self.inout.append(("s", PT.ltype_of(pv)))
                        info.params.append(("s", pv, "inout"))
                        info.param_ref.append(True)
                        self.local_ty["s"] = PT.ltype_of(pv)
                        info.same_pair = tuple(same_ij)
                    elif same_place.ty[1].root is not pv[1].root:
                        raise Untranslatable("the parameters that are one object have different classes")
                    self.objs[c["id"]] = same_place
                    continue
                if isref and not const:
                    if pv[0] != "obj":
                        raise Untranslatable("non-const reference to " + q)
                    self.inout.append((nm, PT.ltype_of(pv)))
                    self.objs[c["id"]] = Place("var", pv[:2], name=nm, const=False)
                    info.params.append((nm, pv, "inout"))
                else:
                    self.objs[c["id"]] = Place("var", pv[:2], name=nm, const=isref or const)
                    info.params.append((nm, pv, "val"))
                info.param_ref.append(isref)
                self.local_ty[nm] = PT.ltype_of(pv)
                continue
            if strip_cv(q) in ("void *", "void*"):
                if self.only_memcpy_dest(c["id"], body):
                    self.outbuf = c["id"]
                    continue
                raise Untranslatable("void* parameter")
            t = T.ctype(c.get("type"))
            if t[0] not in ("i", "b", "p"):
                raise Untranslatable("parameter type %s" % (t,))
            self.locals[c["id"]] = nm
            self.local_ty[nm] = "Bool" if t[0] == "b" else "Nat"
            info.params.append((nm, t, "val"))
            info.param_ref.append(False)
        f.params = info.params
        # ---- constructor initialisers
        pre = []
        if info.kind == "ctor":
            pre = self.ctor_inits(n, pcls)
        code = self.block(body.get("inner", []), self.fall_off, 1)
        code = "".join("  " + x + "\n" for x in pre) + code
        if self.outbuf is not None:
            code = "  let out_ := ([] : Bytes)\n" + code
        if self.addr_cmp:
            code = "  let g_sameObject := %s\n" % ("true" if self.alias == "self" else "false") + code
        f.body = code
        info.lean = f.lean
        info.qual = f.qual
        info.uses_mem = bool(f.uses_mem)
        info.has_fuel = self.has_fuel
        info.gparams = list(self.gparams)
        info.aux = self.aux
        info.body = code
        info.addr_cmp = self.addr_cmp
        if self.alias is None:
            # which parameters the aliasing variants identify: the one `this` is compared with, else the first reference to the own class;
            # the first two non-const references to one record class
            if self.addr_cmp and self.alias_of is not None:
                info.alias_index = [i for i, c in enumerate(ps) if c["id"] == self.alias_of][0]
            elif info.kind == "method" and not info.const and pcls.kind != "flat":
                own = [i for i, ((pn, pt, mode), isref) in enumerate(zip(info.params, info.param_ref)) if pt[0] == "obj" and isref and pt[1].root is pcls.root]
                info.alias_index = own[0] if own and len(info.params) == len(ps) else None
            if info.kind != "method" and len(info.params) == len(ps):
                io = [i for i, (pn, pt, mode) in enumerate(info.params) if mode == "inout"]
                for a_ in io:
                    for b_ in io:
                        if a_ < b_ and info.same_pair is None and info.params[a_][1][1].root is info.params[b_][1][1].root:
                            info.same_pair = (a_, b_)
        # signature
        sig = []
        if self.has_fuel:
            sig.append("(fuel : Nat)")
        sig += ["(%s : Bool)" % p for p in self.gparams]
        if self.has_s and not self.is_ctor:
            sig.append("(s : %s)" % self.pcls.ltype())
        if f.uses_mem:
            sig.append("(m : Bytes)")
        for nm, t, mode in info.params:
            sig.append("(%s : %s)" % (nm, PT.ltype_of(t)))
        info.sig = " ".join(sig)
        info.rtype = self.result_type()
        info.doc = "`%s` %s" % (f.qual, qt)
        if self.alias == "self":
            info.doc += "\n    ALIASING VARIANT of the same body: the reference parameter `%s` denotes `*this` (it is no Lean parameter; every read / write through it\n    goes to the current `s`)" % ps[info.alias_index].get("name", "?")
        if self.alias == "same":
            info.doc += "\n    ALIASING VARIANT of the same body: the reference parameters `%s` and `%s` denote the one object `s`; `std::swap(a, a)` is the moves it is\n    (`tmp = a; a = a; a = tmp`, for a `unique_ptr` the exchange of its pointer with itself): read, read, write, write — the identity" % (
                ps[info.same_pair[0]].get("name", "?"), ps[info.same_pair[1]].get("name", "?"))
        return info

    def ctor_inits(self, n, pcls):
        """member initialisers (or default member initialisers) in declaration order; a derived class: its base initialiser"""
        B = []
        inits = [c for c in n.get("inner", []) if c.get("kind") == "CXXCtorInitializer"]
        if pcls.kind == "sub":
            if len(inits) != 1 or "baseInit" not in inits[0]:
                raise Untranslatable("constructor of a derived class without exactly one base initialiser")
            e = self.strip(inits[0]["inner"][0])
            bpv = self.pvty(e)
            if e.get("kind") != "CXXConstructExpr" or bpv is None or bpv[0] != "obj" or bpv[1].root is not pcls.root:
                raise Untranslatable("base initialiser shape")
            v = self.construct(e, B)
            B.append("let s := %s" % v)
            return B
        vals = {}
        for c in inits:
            if "anyInit" not in c:
                raise Untranslatable("initialiser that is not a member initialiser")
            vals[c["anyInit"].get("name")] = c["inner"][0]
        names = []
        for fld in pcls.fields:
            nm, fk, finfo = fld
            e = vals.pop(nm, None)
            if e is None:
                raise Untranslatable("member %s is not initialised" % nm)
            if e.get("kind") == "CXXDefaultInitExpr":
                fd = [x for x in pcls.rec.get("inner", []) if x.get("kind") == "FieldDecl" and x.get("name") == nm][0]
                init = [x for x in fd.get("inner", []) if x.get("kind") not in ("FullComment",)]
                if not init:
                    raise Untranslatable("member %s without default initialiser" % nm)
                e = init[0]
            while e.get("kind") == "InitListExpr" and len(e.get("inner", [])) == 1:
                e = e["inner"][0]
            if fk == "scalar":
                if e.get("kind") == "InitListExpr" and not e.get("inner"):
                    v = "false" if finfo[0] == "b" else "0"
                else:
                    v = self.ex(e, B)
            elif fk == "bytes":
                v = self.bytes_init(e, B)
            else:
                v = self.val(e, B)
            iv = "i_%s" % nm
            B.append("let %s := %s" % (iv, v))
            names.append((nm, iv))
        if vals:
            raise Untranslatable("initialiser of an unknown member")
        if pcls.kind == "flat":
            B.append("let s := %s" % names[0][1])
        else:
            B.append("let s : %s := { %s }" % (pcls.ltype(), ", ".join("f_%s := %s" % x for x in names)))
        return B

    def bytes_init(self, e, B):
        x = self.strip(e)
        if x.get("kind") != "CXXConstructExpr":
            raise Untranslatable("vector initialiser")
        ct = x.get("ctorType", {}).get("qualType", "")
        args = [a for a in x.get("inner", []) if a.get("kind") != "CXXDefaultArgExpr"]
        if not args and not x.get("inner"):
            return "([] : Bytes)"
        if len(args) == 1 and "size_type" in ct and "value_type" not in ct and "initializer_list" not in ct:
            return "(zeros %s)" % self.ex(args[0], B)             # vector(n): n value-initialised (zero) bytes
        if len(args) == 1 and re.fullmatch(r"void \(const (std::)?vector<(unsigned char|uint8_t)(, std::allocator<unsigned char>)?> &\)", ct):
            p = self.place(args[0], B)
            if p is not None and p.ty == ("bytes",):
                return p.read(self, B)
        raise Untranslatable("vector constructor " + ct)


class PvTranslator:
    """packet value mode over the classes named in `flat` / `records` (qualified name -> name of the Lean record)"""

    def __init__(self, T, flat, records, wire_records=("ASAM::CMP::MessageHeader",)):
        self.T = T
        self.elem = None
        self.classes = {}
        self.order_cls = []
        recs = {T.tu.qualname(r): r for r in T.tu.records()}
        self.recs = recs
        for q in flat:
            if q not in recs:
                raise Untranslatable("class %s not found" % q)
            self.classes[q] = PvClass(self, recs[q], "flat")
        for q, st in records:
            if q not in recs:
                raise Untranslatable("class %s not found" % q)
            self.classes[q] = PvClass(self, recs[q], "rec", stname=st)
            self.order_cls.append(self.classes[q])
        self.wire = [q for q in wire_records if q in T.layout.size]
        for q in list(self.classes):
            self.classes[q].collect_fields()
        self.dummy = PvClass(self, {"kind": "CXXRecordDecl", "name": "none", "inner": []}, "rec")
        self.fns = {}
        self.order = []
        self.failed = {}
        self.notes = {}
        self.names = {}
        self.alias_param = {}     # id(definition) -> index of the parameter that is *this in the `_self` variant
        self.same_param = {}      # id(definition) -> the two parameter indices that are one object in the `_same` variant
        self.cls = None

    # ---- types
    def cls_by_qual(self, q):
        if q is None:
            return None
        q = strip_cv(q)
        if q in self.classes:
            return self.classes[q]
        c = [k for k in self.recs if k == q or k.endswith("::" + q)]
        c = [k for k in c if k.startswith("ASAM::CMP::")] or c
        if len(c) != 1:
            return None
        q = c[0]
        if q in self.classes:
            return self.classes[q]
        # a class derived (through a chain of single inheritance) from a record class, without data members of its own
        chain, cur = [], self.recs[q]
        while True:
            bases = cur.get("bases") or []
            if len(bases) != 1:
                return None
            bq = strip_cv(bases[0]["type"].get("desugaredQualType") or bases[0]["type"]["qualType"])
            b = self.cls_by_qual(bq)
            if b is None or b.kind == "flat":
                return None
            cls = PvClass(self, self.recs[q], "sub", root=b.root)
            cls.collect_fields()
            self.classes[q] = cls
            return cls

    def pvtype_s(self, q):
        if not q:
            return None
        t = strip_cv(q)
        while t.endswith("&"):
            t = strip_cv(t[:-1])
        if t.endswith("*"):
            return None
        m = re.fullmatch(r"(?:std::)?unique_ptr<\s*([A-Za-z_0-9:]+)\s*(?:,\s*(?:std::)?default_delete<[^<>]*>\s*)?>", t)
        if m:
            c = self.cls_by_qual(m.group(1))
            if c is not None and c.kind != "flat":
                return ("uptr", c)
            return None
        if not re.fullmatch(r"[A-Za-z_0-9:]+", t):
            return None
        if t in INT_NAMES or t == "bool" or t == "void":
            return None
        for w in self.wire:
            if t == w or w.endswith("::" + t):
                return ("wrec", w)
        c = self.cls_by_qual(t)
        if c is None:
            return None
        return ("flat", c) if c.kind == "flat" else ("obj", c)

    def pvtype(self, tnode):
        if not tnode:
            return None
        for q in (tnode.get("desugaredQualType"), tnode.get("qualType")):
            r = self.pvtype_s(q) if q else None
            if r is not None:
                return r
        return None

    def ltype_of(self, t):
        if t[0] in ("obj", "flat"):
            return t[1].ltype()
        if t[0] == "uptr":
            return "Option %s" % t[1].ltype()
        if t[0] == "wrec":
            return "Bytes"
        return "Bool" if t[0] == "b" else "Nat"

    def is_pv_decl(self, did):
        """is the declared function translated in the value mode (rather than as a byte-level function on the memory)?"""
        try:
            d = self.T.tu.decl(did)
        except Untranslatable:
            return False
        k = d.get("kind")
        if k not in ("FunctionDecl", "CXXMethodDecl", "CXXConstructorDecl"):
            return False
        ctx = self.T.tu.context(d)
        static = d.get("storageClass") == "static" or any(c.get("storageClass") == "static" for c in self.T.tu.nodes.get(d.get("previousDecl") or "", []))
        if k != "FunctionDecl" and not static:
            if ctx is None or ctx.get("kind") != "CXXRecordDecl":
                return False
            return self.cls_by_qual(self.T.tu.qualname(ctx)) is not None
        qt = d.get("type", {}).get("qualType", "")
        if self.pvtype_s(qt.split("(")[0].strip()) is not None:
            return True
        return any(self.pvtype(c.get("type")) is not None for c in d.get("inner", []) if c.get("kind") == "ParmVarDecl")

    def overloads(self, n):
        ctx = self.T.tu.context(n)
        if ctx is None:
            return 1
        return len([c for c in ctx.get("inner", []) if c.get("kind") == n["kind"] and c.get("name") == n.get("name")])

    # ---- functions
    def key_of(self, defnode):
        return self.T.tu.qualname(defnode) + " " + defnode.get("type", {}).get("qualType", "")

    def translate(self, defnode, alias=None):
        if alias is not None:
            self.translate(defnode)          # the plain function first: it determines which parameters the variant identifies
        key = (id(defnode), alias)
        if key in self.fns:
            f = self.fns[key]
            if isinstance(f, Untranslatable):
                raise f
            if f is None:
                raise Untranslatable("recursive call")
            return f
        self.fns[key] = None
        try:
            f = PvFn(self, defnode, alias).run_pv()
        except Untranslatable as e:
            self.fns[key] = e
            self.failed[self.key_of(defnode) + self.variant_tag(alias)] = str(e)
            raise
        except (KeyError, IndexError, TypeError, AttributeError, ValueError, AssertionError) as e:
            u = Untranslatable("unexpected AST shape %r" % (e,))
            self.fns[key] = u
            self.failed[self.key_of(defnode) + self.variant_tag(alias)] = str(u)
            raise u
        self.fns[key] = f
        self.order.append(f)
        if alias is None:
            # the aliasing variants, from the same body (a failure concerns the variant only and is listed)
            if f.alias_index is not None:
                self.alias_param[id(defnode)] = f.alias_index
                try:
                    self.translate(defnode, alias="self")
                except Untranslatable:
                    pass
            if f.same_pair is not None:
                self.same_param[id(defnode)] = f.same_pair
                try:
                    self.translate(defnode, alias="same")
                except Untranslatable:
                    pass
        return f

    @staticmethod
    def variant_tag(alias):
        return {None: "", "self": " [variant: a reference parameter is *this]", "same": " [variant: two reference parameters are one object]"}[alias]

    def functions_of(self, quals, friends_of):
        """every function with a body that belongs to the classes `quals` (methods, constructors) or takes / returns one of `friends_of` by name"""
        out = []
        seen = set()
        for lst in self.T.tu.nodes.values():
            for n in lst:
                if n["kind"] not in ("FunctionDecl", "CXXMethodDecl", "CXXConstructorDecl") or TU.body_of(n) is None or id(n) in seen:
                    continue
                ctx = self.T.tu.context(n)
                cq = self.T.tu.qualname(ctx) if ctx is not None and ctx.get("kind") == "CXXRecordDecl" else None
                if cq in quals:
                    seen.add(id(n))
                    out.append(n)
                elif n["kind"] == "FunctionDecl" and cq is None and self.T.tu.qualname(n).startswith("ASAM::CMP::"):
                    pts = [self.pvtype(c.get("type")) for c in n.get("inner", []) if c.get("kind") == "ParmVarDecl"]
                    if any(p is not None and p[0] in ("obj", "flat") and p[1].qual in friends_of for p in pts):
                        seen.add(id(n))
                        out.append(n)
        out.sort(key=lambda n: (self.T.tu.qualname(n), n.get("type", {}).get("qualType", "")))
        return out

    def run(self):
        quals = [q for q, c in self.classes.items() if c.kind in ("flat", "rec")]
        for n in self.functions_of(quals, quals):
            ctx = self.T.tu.context(n)
            cq = self.T.tu.qualname(ctx) if ctx is not None and ctx.get("kind") == "CXXRecordDecl" else None
            cls = self.classes.get(cq)
            if cls is not None and cls.kind == "flat" and n.get("isImplicit"):
                self.notes[self.key_of(n)] = "implicit copy / assignment of a single-scalar class: the value itself (no function generated)"
                continue
            p = self.T.tu.parent.get(id(n))
            if p is not None and p.get("kind") == "FunctionTemplateDecl":
                self.failed[self.key_of(n)] = "template"
                continue
            try:
                self.translate(n)
            except Untranslatable:
                pass

    def emit(self):
        out = ["/-! ## packet value mode (vlib/srcobj.py, `PvTranslator`): `PayloadType` (flat: its `uint32_t`), `Payload`, the payload",
               "    constructors reached from `Packet::create`, and `Packet` with its owned payload, as values -/", ""]
        for c in self.order_cls:
            out.append(c.struct())
        for f in self.order:
            for a in f.aux:
                out.append(a)
            out.append("/-- %s -/" % f.doc.replace("-/", "- /"))
            out.append("def %s %s : Option (%s) := do" % (f.lean, f.sig, f.rtype))
            out.append(f.body)
            out.append("")
        items = dict(self.notes)
        items.update(self.failed)
        out.append("/-- functions with a body of the value-mode classes that are not translated (or deliberately not generated), with the reason -/")
        out.append("def PacketValue_untranslated : List (String × String) := [")
        its = sorted(items.items())
        for i, (k, v) in enumerate(its):
            out.append("  (%s, %s)%s" % (json_str(k), json_str(v[:160]), "," if i + 1 < len(its) else ""))
        out.append("]")
        out.append("")
        out.append("def PacketValue_translated : List String := [%s]" % ", ".join(json_str(f.lean) for f in self.order))
        return "\n".join(out) + "\n"


def json_str(s):
    import json
    return json.dumps(s, ensure_ascii=False)


INT_NAMES = set(["unsigned char", "signed char", "char", "unsigned short", "short", "unsigned int", "int", "unsigned long", "long", "unsigned long long",
                 "long long", "uint8_t", "uint16_t", "uint32_t", "uint64_t", "int8_t", "int16_t", "int32_t", "int64_t", "size_t", "std::size_t", "ptrdiff_t"])
