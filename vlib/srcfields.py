"""lean/AsamCmp/GeneratedSrcFields.lean: the bit programs of the library's field accessors (vlib/srcdeep.py, from /repo's source)
and, per class of the protocol table, the list of entries (field of the table x accessor named by the API glue of vlib/layout.py).
The checks themselves and what they mean are hand-written Lean (Src/FieldCheck.lean, Props/SrcFields.lean)."""
import re

from . import layout, srcdeep
from .srctrans import Untranslatable

# class of the protocol table -> C++ classes whose methods the glue calls on `o` (most derived first)
CPP = {
    "cmphdr": ["CmpHeader"], "msghdr": ["MessageHeader"],
    "can": ["CanPayload", "CanPayloadBase"], "canfd": ["CanFdPayload", "CanPayloadBase"], "lin": ["LinPayload"], "eth": ["EthernetPayload"],
    "analog": ["AnalogPayload"], "cm": ["CaptureModulePayload"], "if": ["InterfacePayload"],
    "tecmphdr": ["TECMP_CmpHeader"], "tecmpcan": ["TECMP_CanPayload"], "tecmplin": ["TECMP_LinPayload"], "tecmpif": ["TECMP_InterfacePayload"],
    "tecmpcm": ["TECMP_CaptureModulePayload"],
}


# fields whose accessors take / return an enumerator that IS the field value in wire byte order (the API glue of vlib/layout.py maps
# numbers to enumerators with `?:`, which is outside the glue patterns): (getter, setter, position of the field in the host value)
RAWGLUE = {("analog", "sampleDt"): ("getSampleDt", "setSampleDt", 8)}


def split_args(s):
    out, depth, cur = [], 0, ""
    for ch in s:
        if ch in "(<":
            depth += 1
        elif ch in ")>":
            depth -= 1
        if ch == "," and depth == 0:
            out.append(cur.strip())
            cur = ""
        else:
            cur += ch
    if cur.strip():
        out.append(cur.strip())
    return out


def enum_values(T):
    vals = {}
    for e in T.tu.enums():
        q = T.tu.qualname(e)
        for pre in ("ASAM::CMP::", "ASAM::"):
            if q.startswith(pre):
                q = q[len(pre):]
        from .srctrans import FnTr
        helper = FnTr(T, e)
        for c in e.get("inner", []):
            if c.get("kind") == "EnumConstantDecl":
                try:
                    vals[q + "::" + c["name"]] = helper.enum_value(c)
                except Untranslatable:
                    pass
    return vals


def find_prog(meta, classes, via_header, method):
    for c in classes:
        nm = "%s_%s%s" % (c, "Header_" if via_header else "", method)
        if nm in meta:
            return nm
    return None


def instantiate(meta, name, args, enums, bits):
    """Lean arguments for the program of `name`; returns list of (lean application, kind tag, extra) variants"""
    params, kind = meta[name]
    if len(params) != len(args):
        return None
    variants = [([], None)]     # (lean args, description of the symbolic / constant choice)
    info = {"k": None, "sh": 0, "bool": None}
    lean_args = []
    for (pn, pty), a in zip(params, args):
        a = a.strip()
        # a float travels as its bit pattern (the harness converts with memcpy): `bitsToFloat(x)` is `x` in the bit programs
        fm = re.fullmatch(r"bitsToFloat\((.*)\)", a)
        if fm:
            a = fm.group(1).strip()
        m = re.fullmatch(r"(?:static_cast<[^>]*>\()?\(?\{v\}\)?(?:\s*<<\s*(\d+))?\)?\)?", a)
        if pty == "Op" and m and "{v}" in a and "!=" not in a and "?" not in a:
            info["k"] = 0
            info["sh"] = int(m.group(1) or 0)
            lean_args.append("(.arg 0)")
        elif pty == "Bool" and re.fullmatch(r"\{v\}\s*!=\s*0", a):
            info["bool"] = len(lean_args)
            lean_args.append("BOOL")
        elif pty == "Op" and a in enums:
            lean_args.append("(.const %d)" % enums[a])
        elif pty == "Op" and any(k.endswith("::" + a) for k in enums):
            c = [v for k, v in enums.items() if k.endswith("::" + a)]
            if len(set(c)) != 1:
                return None
            lean_args.append("(.const %d)" % c[0])
        else:
            return None
    return lean_args, info, kind


def generate(T):
    text, meta, failed = srcdeep.generate_programs(T)
    enums = enum_values(T)
    out = ["/- GENERATED on every run by vlib/srcfields.py + vlib/srcdeep.py from the typed clang AST of /repo/src/*.cpp and the API glue of",
           "   vlib/layout.py — do not edit. -/",
           "import AsamCmp.Src.FieldCheck", "namespace AsamCmp.SrcGen", "open AsamCmp AsamCmp.Src.Bit", "", text, ""]
    notes = []
    n_entries = 0
    for cname, (ctype, kind, size, default, fields) in layout.CLASSES.items():
        entries = []
        classes = CPP.get(cname)
        for f in fields if classes else []:
            fname, off, w, shift, bits, setter, getter = f[:7]
            # ---- getter
            g = re.sub(r"floatToBits\((o\.[\w>()-]*\(\))\)", r"\1", getter.strip())
            sh = 0
            raw = RAWGLUE.get((cname, fname))
            if raw:
                # the accessor pair works on the field in wire byte order: getter result / setter argument = field value << sh
                gname, sname, rsh = find_prog(meta, classes, False, raw[0]), find_prog(meta, classes, False, raw[1]), raw[2]
                if gname and meta[gname] == ([], "val"):
                    entries.append('⟨"%s", "get", .get %s_prog %d⟩' % (fname, gname, rsh))
                else:
                    notes.append("%s.%s get: no bit program for %s" % (cname, fname, raw[0]))
                if sname and meta[sname][1] == "void" and [t for _n, t in meta[sname][0]] == ["Op"]:
                    entries.append('⟨"%s", "set", .set (%s_prog (.arg 0)) 0 %d⟩' % (fname, sname, rsh))
                else:
                    notes.append("%s.%s set: no bit program for %s" % (cname, fname, raw[1]))
                continue
            m = re.fullmatch(r"\(static_cast<unsigned long long>\((o\..*)\)\s*>>\s*(\d+)\)", g)
            if m:
                call, sh, want = m.group(1), int(m.group(2)), "val"
            else:
                m = re.fullmatch(r"static_cast<unsigned long long>\((o\..*)\)", g)
                if m:
                    call, want = m.group(1), "val"
                else:
                    m = re.fullmatch(r"\((o\..*)\s*\?\s*1\s*:\s*0\)", g)
                    call, want = (m.group(1), "ne0") if m else (None, None)
            if call:
                mm = re.fullmatch(r"o\.(getHeader\(\)->)?(\w+)\((.*)\)", call.strip())
                if mm:
                    name = find_prog(meta, classes, bool(mm.group(1)), mm.group(2))
                    inst = instantiate(meta, name, split_args(mm.group(3)), enums, bits) if name else None
                    if inst and inst[2] == want and inst[1]["k"] is None and inst[1]["bool"] is None:
                        app = "(%s_prog %s)" % (name, " ".join(inst[0])) if inst[0] else "%s_prog" % name
                        acc = ".get %s %d" % (app, sh) if want == "val" else ".getNe0 %s" % app
                        entries.append('⟨"%s", "get", %s⟩' % (fname, acc))
                    else:
                        notes.append("%s.%s get: %s" % (cname, fname, "no bit program for " + mm.group(2) if not name else "glue / kind mismatch"))
            else:
                notes.append("%s.%s get: glue outside the pattern" % (cname, fname))
            # ---- setter
            mm = re.fullmatch(r"o\.(getHeader\(\)->)?(\w+)\((.*)\)", setter.strip())
            if not mm:
                notes.append("%s.%s set: glue outside the pattern" % (cname, fname))
                continue
            name = find_prog(meta, classes, bool(mm.group(1)), mm.group(2))
            inst = instantiate(meta, name, split_args(mm.group(3)), enums, bits) if name else None
            if not inst or inst[2] != "void":
                notes.append("%s.%s set: %s" % (cname, fname, "no bit program for " + mm.group(2) if not name else "glue / kind mismatch"))
                continue
            largs, info, _k = inst
            if info["bool"] is not None:
                for bv, c in (("true", (1 << bits) - 1), ("false", 0)):
                    a2 = [bv if x == "BOOL" else x for x in largs]
                    entries.append('⟨"%s", "set", .setConst (%s_prog %s) %d⟩' % (fname, name, " ".join(a2), c))
            elif info["k"] is not None:
                entries.append('⟨"%s", "set", .set (%s_prog %s) 0 %d⟩' % (fname, name, " ".join(largs), info["sh"]))
            else:
                notes.append("%s.%s set: no value argument" % (cname, fname))
        out.append("def entries_%s : List Entry := [" % cname)
        out.append(",\n".join("  " + e for e in entries))
        out.append("]\n")
        n_entries += len(entries)
    out.append("/-- accessors of the protocol table's fields without an entry, with the reason -/")
    out.append("def notCovered : List String := [")
    out.append(",\n".join('  "%s"' % n.replace('"', "'") for n in notes))
    out.append("]\n")
    out.append("end AsamCmp.SrcGen")
    return "\n".join(out) + "\n", len(meta), n_entries, notes
