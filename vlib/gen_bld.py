"""Generators for C13 (payload builders)."""
from . import proto
from .proto import be
from .runner import Case

KEEP = {"can": 14, "canfd": 14, "lin": 7, "eth": 4, "analog": 16, "cm": 26, "if": 36}
HDR = {"can": 16, "canfd": 16, "lin": 8, "eth": 6, "analog": 16, "cm": 26, "if": 36}
TY = {"can": 0x0101, "canfd": 0x0102, "lin": 0x0103, "eth": 0x0108, "analog": 0x0107, "cm": 0x0301, "if": 0x0302}


def prior_objects(rng, k):
    """prior contents of the object: default, and objects that held longer / shorter / different data with
    arbitrary (valid and error-flagged) header fields"""
    out = ["default"]
    for _ in range(3):
        ty, b = proto.valid_payload(rng, k, rng.choice([None, HDR[k] + 40 if k not in ("cm", "if") else None]))
        b = bytearray(b)
        if k in ("can", "canfd", "eth") and rng.random() < 0.25:
            b[1] |= 0x01           # an error flag set earlier: the excluded case of the validity clause
        out.append(bytes(b).hex())
    return out


def spec_bytes(k, prior, args):
    """expected raw bytes after setData, from the protocol table"""
    if k in ("can", "canfd"):
        d = args[0]
        return prior[:14] + be(proto.dlc_code(len(d)), 1) + be(len(d), 1) + d
    if k == "lin":
        d = args[0]
        return prior[:7] + be(len(d), 1) + d
    if k == "eth":
        d = args[0]
        return prior[:4] + be(len(d), 2) + d
    if k == "analog":
        return prior[:16] + args[0]
    if k == "cm":
        return prior[:26] + b"".join(proto.cm_string(s) for s in args[:4]) + be(len(args[4]), 2) + args[4]
    if k == "if":
        ids, v = args
        return prior[:36] + be(len(ids), 2) + ids + (b"\0" if len(ids) % 2 else b"") + be(len(v), 2) + v
    raise ValueError(k)


DEFAULTS = {"can": bytes(16), "canfd": bytes(16), "lin": bytes(8), "eth": bytes(6), "analog": bytes(16), "cm": bytes(36), "if": bytes(40)}
NARGS = {"can": 1, "canfd": 1, "lin": 1, "eth": 1, "analog": 1, "cm": 5, "if": 2}


def text(rng, n):
    return proto.rand_text(rng, n)


def gen_c13(tier, rng):
    cases = []
    for k in ("can", "canfd", "lin"):
        for prior in prior_objects(rng, k):
            ops = []
            for n in range(0, 256):
                ops.append("bld %s %s %s" % (k, prior, proto.hexs(proto.rand_bytes(rng, n))))
            cases.append(Case("c13", ops, True, (k, "every-length"), meta={"kind": k}))
    for k in ("eth", "analog"):
        for prior in prior_objects(rng, k):
            ops = []
            for n in [0, 1, 2, 3, 4, 63, 64, 65, 1499, 65529] + [rng.randrange(0, 3000) for _ in range(10 if tier == "quick" else 100)]:
                if k == "analog" and n == 65529:
                    for n2 in (65519, 65520, 65525):        # header 16 + data: the payload itself crosses 65535 bytes at 65520
                        ops.append("bld %s %s %s" % (k, prior, proto.hexs(proto.rand_bytes(rng, n2))))
                ops.append("bld %s %s %s" % (k, prior, proto.hexs(proto.rand_bytes(rng, n))))
            cases.append(Case("c13", ops, True, (k, "lengths"), meta={"kind": k}))
    for prior in prior_objects(rng, "cm"):
        ops = []
        for n in list(range(0, 41)) + [255, 256, 1000]:
            strs = [text(rng, n), text(rng, rng.randrange(0, 6)), text(rng, (n * 7) % 13), text(rng, rng.randrange(0, 41))]
            v = proto.rand_bytes(rng, rng.choice([0, 1, 2, 3, n]))
            ops.append("bld cm %s %s" % (prior, " ".join(proto.hexs(x) for x in strs + [v])))
            # vendor data is BINARY: trailing / leading / only zero bytes are data like any other (an accessor that shares the strings'
            # NUL stripping shortens them), and lengths whose low byte is >= 0x80 (a length prefix assembled through `char`)
            if n in (0, 1, 2, 3, 5, 8, 40, 255):
                for v2 in (bytes(n + 1), proto.rand_bytes(rng, n) + b"\0", proto.rand_bytes(rng, n) + b"\0\0\0", b"\0" + proto.rand_bytes(rng, n),
                           proto.rand_bytes(rng, 128 + n), proto.rand_bytes(rng, 383 + n)):
                    ops.append("bld cm %s %s" % (prior, " ".join(proto.hexs(x) for x in strs + [v2])))
            if n in (3, 4):
                for ln in (127, 128, 129, 254, 255, 383, 384):
                    strs2 = list(strs)
                    strs2[n % 4] = text(rng, ln)
                    ops.append("bld cm %s %s" % (prior, " ".join(proto.hexs(x) for x in strs2 + [v])))
        cases.append(Case("c13", ops, True, ("cm", "strings"), meta={"kind": "cm"}))
    for prior in prior_objects(rng, "if"):
        ops = []
        for n in list(range(0, 20)) + [127, 128, 129, 255, 256, 1001]:
            for vn in (0, 1, 2, 7):
                ops.append("bld if %s %s %s" % (prior, proto.hexs(proto.rand_bytes(rng, n)), proto.hexs(proto.rand_bytes(rng, vn))))
            if n in (0, 1, 2, 3, 128, 129):
                for v2 in (bytes(3), proto.rand_bytes(rng, 2) + b"\0", b"\0" + proto.rand_bytes(rng, 2), proto.rand_bytes(rng, 128), proto.rand_bytes(rng, 255)):
                    ops.append("bld if %s %s %s" % (prior, proto.hexs(proto.rand_bytes(rng, n)), proto.hexs(v2)))
                ops.append("bld if %s %s %s" % (prior, proto.hexs(bytes(n)), proto.hexs(proto.rand_bytes(rng, 4))))
                # vendor data of 256 bytes and more (the high byte of its length field is in use) with even and odd stream-id counts
                for vn in (256, 300, 512, 0x1234):
                    ops.append("bld if %s %s %s" % (prior, proto.hexs(proto.rand_bytes(rng, n)), proto.hexs(b"\xEE" * vn)))
        cases.append(Case("c13", ops, True, ("if", "lists"), meta={"kind": "if"}))
    # the largest list the API type admits (uint16 count)
    cases.append(Case("c13", ["bld if default %s 616263" % ("11" * 65535), "bld if default %s 616263" % ("22" * 65534)], True, ("if", "max-count"),
                      meta={"kind": "if", "noshrink": True}))
    # TECMP::LinPayload::setData
    ops = []
    for n in range(0, 64):
        ops.append("tpl lindata %s %s" % (proto.hexs(proto.rand_bytes(rng, rng.choice([2, 3, 10, 70]))), proto.hexs(proto.rand_bytes(rng, n))))
    cases.append(Case("c13t", ops, True, ("tecmplin", "every-length")))
    # re-setting data on an object that already holds different data (longer, shorter): chains
    for k in KEEP:
        for _ in range(20 if tier == "quick" else 200):
            ops = []
            for _j in range(8):
                prior = rng.choice(prior_objects(rng, k))
                chain = []
                for _c in range(rng.randrange(2, 5)):
                    if k == "cm":
                        chain += [proto.hexs(text(rng, rng.randrange(0, 12))) for _x in range(4)] + [proto.hexs(proto.rand_bytes(rng, rng.randrange(0, 5)))]
                    elif k == "if":
                        chain += [proto.hexs(proto.rand_bytes(rng, rng.randrange(0, 9))), proto.hexs(proto.rand_bytes(rng, rng.randrange(0, 5)))]
                    else:
                        chain.append(proto.hexs(proto.rand_bytes(rng, rng.choice([0, 1, 8, 12, 64, rng.randrange(0, 200)]))))
                ops.append("bld %s %s %s" % (k, prior, " ".join(chain)))
            cases.append(Case("c13c", ops, True, (k, "chain"), meta={"kind": k}))
    for prior in prior_objects(rng, "cm"):
        ops = []
        for ln in (8, 30, 200):
            first = [proto.hexs(b"\x7A" * ln)] * 4 + [proto.hexs(b"\xEE" * ln)]
            second = [proto.hexs(text(rng, rng.randrange(0, 4))) for _x in range(4)] + [proto.hexs(b"")]
            ops.append("bld cm %s %s" % (prior, " ".join(first + second)))
        cases.append(Case("c13c", ops, True, ("cm", "chain", "long-then-empty-vendor"), meta={"kind": "cm"}))
    return cases


def unhex(x):
    return b"" if x == "-" else bytes.fromhex(x)


def pred_c13(case, impl, model, ctx):
    """implementation only, against the protocol table: raw bytes = preserved header fields + length fields + data (+ NUL / zero
    padding) of the LAST setData, whatever the object held before; valid unless an error flag was set earlier; accepted by the decoder"""
    k = case.meta.get("kind")
    if k is None:
        return None
    for o, l in zip(case.ops, impl):
        if l.startswith("CRASH"):
            return False
        w = o.split(" ")
        prior = DEFAULTS[k] if w[2] == "default" else unhex(w[2])
        n = NARGS[k]
        args = [unhex(x) for x in w[3:]]
        last = args[-n:]
        exp = spec_bytes(k, prior, last)
        if not l.startswith("raw="):
            return False
        toks = l.split(" ")
        raw = unhex(toks[0][4:])
        if raw != exp:
            return False
        # the getters return exactly the data and lengths supplied: every reported view is the supplied data
        views = {}
        for t in toks[1:]:
            if "=" in t and ":" in t.split("=")[1] and not t.startswith("pkt="):
                nm, v = t.split("=")
                off, ln = v.split(":")
                views[nm] = (None if off == "null" else int(off), int(ln))
        if "valid=1" in toks:
            want = {}
            if k in ("can", "canfd", "lin", "eth"):
                want["data"] = last[0]
            elif k == "cm":
                want = dict(zip(["deviceDescription", "serialNumber", "hardwareVersion", "softwareVersion"], last[:4]))
                want["vendorData"] = last[4]
            elif k == "if":
                want = {"streamIds": last[0], "vendorData": last[1]}
            for nm, d in want.items():
                if nm not in views:
                    return False
                off, ln = views[nm]
                if ln != len(d):
                    return False
                if off is None:
                    if len(d) != 0:
                        return False
                elif raw[off:off + ln] != d:
                    return False
        excluded = False
        if k in ("can", "canfd"):
            excluded = (int.from_bytes(prior[0:2], "big") & 0x03FF) != 0 or prior[12:14] != b"\0\0"
        elif k == "eth":
            excluded = (int.from_bytes(prior[0:2], "big") & 0x3B) != 0
        elif k == "analog":
            excluded = (prior[1] & 3) > 1
        elif k == "if":
            excluded = prior[29] > 2
        if not excluded:
            if "valid=1" not in toks:
                return False
            if len(raw) < 65536 and ("pkt=%08x:1" % TY[k]) not in toks:
                return False
    return True


def lean_bytes(b):
    return "([" + ", ".join(str(x) for x in b) + "] : Bytes)"


def selfcheck_bld(cases, model):
    """a sample of builder results of the compiled driver, as kernel-checked equations"""
    fn = {"can": "canSetData", "canfd": "canSetData", "lin": "linSetData", "eth": "ethSetData", "analog": "analogSetData"}
    ex = []
    for c, m in zip(cases, model):
        k = c.meta.get("kind")
        if k not in fn or len(ex) >= 12:
            continue
        for o, l in list(zip(c.ops, m))[3:40:12]:
            w = o.split(" ")
            if len(w) != 4 or not l.startswith("raw="):
                continue
            prior = DEFAULTS[k] if w[2] == "default" else unhex(w[2])
            d = unhex(w[3])
            if len(prior) > 70 or len(d) > 40:
                continue
            raw = unhex(l.split(" ")[0][4:])
            ex.append("example : %s %s %s = %s := by decide" % (fn[k], lean_bytes(prior), lean_bytes(d), lean_bytes(raw)))
    return ["AsamCmp.Builders"], ex[:12]
