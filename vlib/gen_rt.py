"""C19 (concurrent use of separate instances) and C20 (no uninitialised memory): mixed workloads taken from the other
properties' generators plus the supporting runs (ThreadSanitizer, allocator / stack fill patterns, valgrind)."""
import os
import random
import subprocess

from . import core, gen_enc, gen_dec, gen_bld, gen_fld, gen_misc, proto
from .runner import Case, write_replay


def sample(rng, cases, n):
    cases = list(cases)
    rng.shuffle(cases)
    return cases[:n]


def mixed_workload(tier, rng, scale=1):
    k = scale * (1 if tier == "quick" else 6)
    cases = []
    cases += sample(rng, gen_enc.random_batches("quick", rng, 60 * k), 60 * k)
    cases += sample(rng, gen_enc.gen_c10("quick", rng), 30 * k)
    cases += sample(rng, gen_dec.gen_c05("quick", rng), 60 * k)
    cases += sample(rng, gen_dec.gen_c04("quick", rng), 40 * k)
    c15 = gen_dec.gen_c15("quick", rng)
    rare = [c for c in c15 if set(c.tags) & {"bus", "cm", "cm-digits", "lin", "short"}]      # every TECMP message kind is in the workload
    cases += rare + sample(rng, [c for c in c15 if c not in rare], 30 * k)
    cases += sample(rng, gen_dec.random_histories("quick", rng, 40 * k, with_pending=True), 40 * k)
    cases += sample(rng, gen_misc.gen_c16("quick", rng), 60 * k)
    bld = gen_bld.gen_c13("quick", rng)
    cases += sample(rng, bld, 12 * k)
    # fixed parts (not left to sampling): the builders that take caller buffers of odd / even length (a byte read behind the caller's
    # exactly sized array becomes padding), trackers that are copies of each other, and encodes of status / control / vendor messages
    # (their message headers have unused id bytes that must come out zero whatever the stack held)
    cases += [c for c in bld if c.meta.get("kind") in ("if", "cm") and "chain" not in c.tags and "max-count" not in c.tags and c not in cases][:6]
    cases += gen_misc.c16_copy_cases("quick", rng)[:8]
    for mt_ty in (0x0210, 0x0310, 0xFF10, 0x0301, 0x0302):
        kind = {0x0301: "cm", 0x0302: "if"}.get(mt_ty)
        pk = [proto.rand_packet(rng, kind) if kind else gen_enc.gpkt(rng.randrange(1, 40), rng.randrange(251), ty=mt_ty, ts=rng.getrandbits(64), vend=rng.getrandbits(16)) for _ in range(3)]
        cases.append(gen_enc.rt_case(pk, rng.choice([0, 64]), rng.choice([64, 200]), rng.getrandbits(16), rng.getrandbits(8), ("status-control-vendor-headers",)))
    cases += gen_dec.gen_length_extremes(rng)
    cases += gen_dec.gen_overdeclared_segments("quick", rng, 12 * k)       # reads behind an exactly sized frame would reach a delivered packet
    cases += sample(rng, [c for c in gen_misc.gen_c14("quick", rng) if set(c.tags) & {"no-shared-state", "wire-packet-modified-in-place"}], 16 * k)
    # a capture module repeats its status message several times per second: the SAME TECMP status frame several times in a row, another
    # module's (another serial number, incl. 0) in the next case (text that is formatted once and kept would be shared between threads)
    for serial in (0, 1, 77, 4294967295, 1000000000, rng.getrandbits(32), rng.getrandbits(32), 0):
        b = bytearray(gen_dec.tecmp_cm_payload(rng, 36))
        b[8:12] = serial.to_bytes(4, "big")
        f = gen_dec.tecmp_frame(rng, 1, 0, bytes(b))
        cases.append(Case("c19rep", [gen_dec.feed(f)] * 4, True, ("repeated-tecmp-status",), meta={"noshrink": True}))
    cases += gen_dec.gen_decoder_copies("quick", rng)       # a copy of a Decoder is a separate instance (it may live on another thread)
    for c in cases:
        c.nontrivial = True
    return cases


def gen_c19(tier, rng):
    return mixed_workload(tier, rng)


def extra_c19(ctx, cases, violations):
    """TSan build, n threads each driving its own Encoder / Decoder / Status (and the static TECMP decoder);
    per-case outputs must equal the model's (and hence the single-threaded run's)"""
    hd = core.build_harness("tsan")
    pairs = [(c.name, c.ops) for c in cases]
    script = core._script(pairs)
    stats = {}
    for n, mode in ([(4, "split"), (4, "all")] if ctx.tier == "quick" else [(4, "split"), (16, "split"), (8, "all")]):
        env = dict(os.environ)
        env.update(core.TSAN_ENV)
        # split: the cases are distributed over the threads; all: every thread runs every case (each library path on several threads)
        r = subprocess.run([os.path.join(hd, "harness"), "--threads", str(n)] + (["--all"] if mode == "all" else []), input=script.encode(),
                           stdout=subprocess.PIPE, stderr=subprocess.PIPE, env=env, timeout=1800)
        err = r.stderr.decode(errors="replace")
        out = r.stdout.decode().split("\n")
        if out and out[-1] == "":
            out.pop()
        reports = err.count("WARNING: ThreadSanitizer")
        mism = 0
        first = None
        i = 0
        for c, m in zip(cases, ctx.model):
            k = 1 + len(c.ops)
            got = out[i + 1:i + k]
            i += k
            if got != m:
                mism += 1
                if first is None:
                    first = (c, m, got)
        stats["tsan_threads_%d_%s" % (n, mode)] = {"cases": len(cases), "tsan_reports": reports, "exit": r.returncode, "digest_mismatches": mism}
        if reports or r.returncode != 0:
            p = write_replay(ctx.spec.prop, ctx.seed, ctx.tier, (700 if mode == "split" else 740) + n, "tsan-report", cases[0].ops[:0], [], [],
                             "ThreadSanitizer reported %d issue(s) with %d threads (exit %d); re-run: .cache/h-*-tsan/harness --threads %d < script\n%s" % (
                                 reports, n, r.returncode, n, err[:3000]))
            with open(p, "a") as f:
                f.write("# --- full threaded workload ---\n" + script[:200000])
            violations.append((p, ""))
        elif mism:
            c, m, got = first
            p = write_replay(ctx.spec.prop, ctx.seed, ctx.tier, (720 if mode == "split" else 760) + n, "thread-digest-mismatch", c.ops, m, got,
                             "%d case(s) produced other output under %d threads than alone" % (mism, n))
            violations.append((p, ""))
    return {"tsan": stats}


def gen_c20(tier, rng):
    return mixed_workload(tier, rng)


FILLS = [(0x00, 0), (0xFF, 255), (0xA5, 165)]


def extra_c20(ctx, cases, violations):
    """the same workload under different fill patterns for fresh heap blocks (ASan's malloc_fill_byte) and for the stack below the
    caller (painted before every operation): outputs must equal the model's under every pattern; then valgrind memcheck on a subset"""
    pairs = [(c.name, c.ops) for c in cases]
    stats = {}
    for heap, stack in (FILLS if ctx.tier != "quick" else FILLS[:2]):
        env = {"ASAN_OPTIONS": core.SAN_ENV["ASAN_OPTIONS"] + ":malloc_fill_byte=%d:max_malloc_fill_size=16777216" % heap, "VERIF_STACK_FILL": str(stack)}
        impl, crashes = core.run_harness(ctx.hdir, pairs, env_extra=env)
        mism = [(c, m, im) for c, m, im in zip(cases, ctx.model, impl) if im != m]
        stats["fill_0x%02x" % heap] = {"cases": len(cases), "mismatches": len(mism), "crashes": crashes}
        if mism:
            c, m, im = mism[0]
            p = write_replay(ctx.spec.prop, ctx.seed, ctx.tier, 600 + heap, "fill-pattern-dependence", c.ops, m, im,
                             "output differs from the model when fresh heap blocks are filled with 0x%02x and the stack with %d: a byte of uninitialised memory reached an output (ASAN_OPTIONS=malloc_fill_byte=%d VERIF_STACK_FILL=%d)" % (heap, stack, heap, stack))
            violations.append((p, ""))
    # definedness: no decision depends on an uninitialised value (valgrind memcheck on the plain build)
    hp = core.build_harness("plain")
    sub = pairs[:: max(1, len(pairs) // (60 if ctx.tier == "quick" else 600))]
    # always under memcheck: the encodes of status / control / vendor messages and the builder cases (printing a frame byte is a
    # decision on its value, so an uninitialised byte that reaches an output is reported)
    sub += [(c.name, c.ops) for c in cases if set(c.tags) & {"status-control-vendor-headers", "if", "cm"} and (c.name, c.ops) not in sub][:14]
    script = core._script(sub)
    r = subprocess.run(["valgrind", "-q", "--error-exitcode=97", "--track-origins=no", os.path.join(hp, "harness")], input=script.encode(),
                       stdout=subprocess.PIPE, stderr=subprocess.PIPE, timeout=3000)
    out = r.stdout.decode().split("\n")
    if out and out[-1] == "":
        out.pop()
    err = r.stderr.decode(errors="replace")
    stats["valgrind"] = {"cases": len(sub), "ops": sum(len(o) for _, o in sub), "exit": r.returncode, "errors_reported": err.count("== ")}
    if r.returncode != 0:
        p = write_replay(ctx.spec.prop, ctx.seed, ctx.tier, 690, "valgrind-error", [], [], [], "valgrind memcheck reported an error (exit %d)\n%s" % (r.returncode, err[:3000]))
        with open(p, "a") as f:
            f.write("# --- workload ---\n" + script[:200000])
        violations.append((p, ""))
    return {"fill_patterns_and_valgrind": stats}
