#!/usr/bin/env python3
"""Entry point of the checks:  check.py <Cxx> [--tier quick|thorough]   |   check.py setup   |   check.py replay <file>"""
import os
import sys

sys.path.insert(0, os.path.dirname(os.path.abspath(__file__)))
from vlib import core, runner, registry  # noqa: E402


def main():
    a = sys.argv[1:]
    if not a:
        print(__doc__)
        return 2
    if a[0] == "setup":
        hdir = core.build_harness("asan")
        from vlib import generated
        print(generated.regenerate(hdir))
        targets = ["AsamCmp", "driver"]
        for spec in registry.SPECS.values():
            for t in spec.lean_targets:
                if t not in targets:
                    targets.append(t)
        ok, out = core.lake_build(targets)
        if not ok:
            print(out[-3000:])
            return 1
        print("setup ok")
        return 0
    if a[0] == "replay":
        return registry.replay(a[1])
    prop = a[0]
    tier = os.environ.get("VERIF_TIER", "quick")
    if "--tier" in a:
        tier = a[a.index("--tier") + 1]
    seed = int(os.environ.get("VERIF_SEED", "0"))
    spec = registry.SPECS[prop]
    return runner.run_check(spec, tier, seed)


if __name__ == "__main__":
    sys.exit(main())
